#!/usr/bin/env python3
"""Regenerates MANIFEST.json from checks_table.py (single source of truth for the check list)."""
import json, os, subprocess
from checks_table import CHECKS, MANIFEST_TEXT, NOT_APPLICABLE

ROOT = os.path.dirname(os.path.abspath(__file__))
hooks = subprocess.run(["git", "-C", "/repo", "log", "--format=%H %s"], stdout=subprocess.PIPE, text=True).stdout.splitlines()
hook_commits = [l.split()[0] for l in hooks if l.split(" ", 1)[1].startswith("verif hooks")]

checks = []
for pid in sorted(CHECKS):
    c = CHECKS[pid]
    mt = MANIFEST_TEXT[pid]
    checks.append({
        "property_id": pid,
        "quick_cmd": "./check %s --tier quick" % pid,
        "thorough_cmd": "./check %s --tier thorough" % pid,
        "evidence_file": "/verif/evidence/%s.json" % pid,
        "replay_cmd_template": "./check %s --replay {path}" % pid,
        "engine": "rapid-harness",
        "level_claimed": {"category": c.get("level", "exploration"), "text": mt["level_text"], "design_ref": mt["design_ref"]},
        "level_note": mt["level_note"],
        "technique": mt["technique"],
    })
m = {
    "version": 1,
    "setup_cmd": "./setup.sh",
    "hooks": {
        "guard": "verif",
        "enable": "go test -c -tags verif (the harness module replaces github.com/utreexo/utreexo with /repo, so every check builds /repo's working tree with the hooks compiled in)",
        "baseline_off_cmd": "cd /repo && GOFLAGS=-mod=mod GOPROXY=off GOSUMDB=off GOTOOLCHAIN=local go test -json -vet=off -count=1 -timeout 25m ./...",
        "source_commits": hook_commits,
        "add_only": True,
    },
    "engines": [{
        "name": "rapid-harness",
        "path": "/verif/harness",
        "serves_properties": sorted(CHECKS),
        "kind_free_text": "Go module: reference model + rapid (property-based, stateful) generators + case-as-data Run functions; sharded over processes by ./check; native go fuzz targets in the thorough tier",
    }],
    "checks": checks,
    "not_applicable": NOT_APPLICABLE,
    "notes": "All checks: generated-input search (rapid v1.3.0, seeded from VERIF_SEED) against an implementation-independent reference model; see DESIGN.md.",
}
json.dump(m, open(os.path.join(ROOT, "MANIFEST.json"), "w"), indent=1)
print("MANIFEST.json written:", len(checks), "checks,", len(NOT_APPLICABLE), "not applicable")

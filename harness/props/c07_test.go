package props

// C07 - a cached proof updated from block data alone stays complete and canonical.

import (
	"fmt"
	"testing"

	u "github.com/utreexo/utreexo"
	"pgregory.net/rapid"
	"verifharness/model"
)

type C07Case struct {
	Blocks []Block `json:"blocks"`
	// High > 0: a second light client follows the same forest embedded behind High opaque leaves
	// (layouts of up to 63 rows); its cached proof must be the shifted canonical one.
	High uint64 `json:"high,omitempty"`
}

// genRememberBlock is genBlock with the remember classes C07 names forced often.
func genRememberBlock(t *rapid.T, f *model.Forest, lim limits, salt int) Block {
	g := f.Clone()
	b := genBlock(t, g, lim, false)
	b.Salt = salt
	if b.Add > 0 {
		switch rapid.SampledFrom([]string{"none", "all", "last", "first", "random", "random", "lastand"}).Draw(t, "remclass") {
		case "all":
			for i := 0; i < b.Add; i++ {
				b.Rem = append(b.Rem, i)
			}
		case "last":
			b.Rem = []int{b.Add - 1}
		case "first":
			b.Rem = []int{0}
		case "random":
			for i := 0; i < b.Add; i++ {
				if rapid.Bool().Draw(t, "rem") {
					b.Rem = append(b.Rem, i)
				}
			}
		case "lastand":
			for i := 0; i < b.Add-1; i++ {
				if rapid.IntRange(0, 3).Draw(t, "rem") == 0 {
					b.Rem = append(b.Rem, i)
				}
			}
			b.Rem = append(b.Rem, b.Add-1)
		}
	}
	applyToModel(f, b)
	return b
}

func genC07(t *rapid.T) C07Case {
	lim := genLimitsGiant(t)
	f := &model.Forest{}
	n := rapid.IntRange(1, lim.maxBlocks).Draw(t, "nblocks")
	var c C07Case
	for i := 0; i < n; i++ {
		c.Blocks = append(c.Blocks, genRememberBlock(t, f, lim, 0))
	}
	c.High = genHigh(t, lim.maxLeaves)
	return c
}

// checkCachedProof compares a light client's cached (hashes, proof) with the model: exactly the
// expected leaves, each paired with its true position, canonical proof hashes, accepted by Verify.
func checkCachedProof(f *model.Forest, stump u.Stump, hashes []Hash, proof u.Proof, expect map[int]bool, exact bool) error {
	v := f.View()
	if len(hashes) != len(proof.Targets) {
		return fmt.Errorf("%d cached hashes but %d targets", len(hashes), len(proof.Targets))
	}
	got := map[int]bool{}
	slotOf := map[Hash]int{}
	for s, h := range f.Hashes {
		if !f.Dead[s] {
			slotOf[h] = s
		}
	}
	for i, h := range hashes {
		s, ok := slotOf[h]
		if !ok {
			return fmt.Errorf("cached hash %s is not a live leaf (N=%d)", shortH(h), v.N)
		}
		if got[s] {
			return fmt.Errorf("leaf of slot %d is cached twice", s)
		}
		got[s] = true
		if proof.Targets[i] != v.SlotPos[s] {
			return fmt.Errorf("cached leaf of slot %d is paired with position %d, its position is %d (N=%d)", s, proof.Targets[i], v.SlotPos[s], v.N)
		}
	}
	for s := range expect {
		if !got[s] {
			return fmt.Errorf("the leaf of slot %d should be held but is missing from the cached proof (N=%d, held positions %v)", s, v.N, proof.Targets)
		}
	}
	if exact {
		for s := range got {
			if !expect[s] {
				return fmt.Errorf("the cached proof holds the leaf of slot %d which it should not (N=%d)", s, v.N)
			}
		}
	}
	want := v.Proof(hashes)
	if !eqHashes(want.Proof, proof.Proof) {
		return fmt.Errorf("cached proof hashes %s are not the canonical ones %s for positions %v (N=%d)", shortHs(proof.Proof), shortHs(want.Proof), proof.Targets, v.N)
	}
	if len(hashes) > 0 {
		if _, err := u.Verify(copyStump(stump), cloneHashes(hashes), cloneProof(proof)); err != nil {
			return fmt.Errorf("Verify rejects the cached proof: %v", err)
		}
	}
	return nil
}

func runC07(c C07Case) *Result {
	res := &Result{}
	f := &model.Forest{}
	lc := &lightClient{}
	lc2 := &lightClient{} // a second wallet served from the same block data: it remembers the additions the first one does not
	expect2 := map[int]bool{}
	pol := newInst(Cfg{Kind: "pollard"})
	expect := map[int]bool{}
	big := &lightClient{stump: u.Stump{Roots: highRoots(c.High), NumLeaves: c.High}}
	if c.High != 0 {
		res.class(fmt.Sprintf("embedded:rows=%d", model.Rows(c.High+1)))
	}
	for i, b := range c.Blocks {
		for _, s := range b.Del {
			if s < 0 || s >= len(f.Dead) || f.Dead[s] {
				return res.failf("case error: block %d deletes slot %d which is not live", i, s)
			}
		}
		v := f.View()
		sh := shapeOf(f, b)
		delH := f.HashesOf(b.Del)
		proof := v.Proof(delH)
		first := len(f.Hashes)
		adds, addH := mkLeavesSalt(b.Salt, first, b.Add, nil)
		posBefore := map[int]uint64{}
		for s := range expect {
			posBefore[s] = v.SlotPos[s]
		}
		nonEmptyBefore := len(expect) > 0
		if err := lc.update(delH, proof, addH, b.Rem); err != nil {
			return res.failf("block %d: updating the light client failed: %v", i, err)
		}
		var rem2 []int
		for k := 0; k < b.Add; k++ {
			if !inSet(b.Rem, k) {
				rem2 = append(rem2, k)
			}
		}
		if err := lc2.follow(lc, rem2); err != nil {
			return res.failf("block %d: updating a second wallet with the same block data and UpdateData failed: %v", i, err)
		}
		if err := pol.P.Modify(adds, cloneHashes(delH), cloneProof(proof)); err != nil {
			res.class("setup-failed")
			return res
		}
		applyToModel(f, b)
		for _, s := range b.Del {
			delete(expect, s)
			delete(expect2, s)
		}
		for _, r := range b.Rem {
			expect[first+r] = true
		}
		for _, r := range rem2 {
			expect2[first+r] = true
		}
		v2 := f.View()
		if err := (&Inst{Cfg: Cfg{Kind: "stump"}, S: &lc.stump}).checkRoots(v2); err != nil {
			res.class("setup-failed")
			return res
		}
		if err := checkCachedProof(f, lc.stump, lc.hashes, lc.proof, expect, true); err != nil {
			return res.failf("after block %d {del %v, add %d, remember %v}: %v", i, b.Del, b.Add, b.Rem, err)
		}
		if err := checkCachedProof(f, lc.stump, lc2.hashes, lc2.proof, expect2, true); err != nil {
			return res.failf("after block %d {del %v, add %d}: second wallet (remembers %v; fed the same block-data slices right after the first, with the same UpdateData value or, every other block, one rebuilt from its exported fields): %v", i, b.Del, b.Add, rem2, err)
		}
		if c.High != 0 {
			if !highOK(c.High, f.N()) {
				return res.failf("case error: %d leaves do not fit below the opaque trees of %d leaves", f.N(), c.High)
			}
			bp := u.Proof{Targets: embedAll(proof.Targets, v, c.High), Proof: cloneHashes(proof.Proof)}
			bw := fmt.Sprintf("after block %d {del %v, add %d, remember %v}, embedded behind %d opaque leaves (%d rows)", i, b.Del, b.Add, b.Rem, c.High, model.Rows(c.High+f.N()))
			if err := big.update(delH, bp, addH, b.Rem); err != nil {
				return res.failf("%s: updating the light client failed: %v", bw, err)
			}
			if err := checkCachedProofEmbedded(f, c.High, big.stump, big.hashes, big.proof, expect); err != nil {
				return res.failf("%s: %v", bw, err)
			}
			res.count("embedded_blocks", 1)
		}
		if len(lc.hashes) > 0 {
			full, err := pol.P.Prove(cloneHashes(lc.hashes))
			if err == nil && !eqProof(full, lc.proof) {
				return res.failf("after block %d: cached proof %s differs from what the full prover emits %s", i, proofStr(lc.proof), proofStr(full))
			}
		}
		moved := false
		for s := range expect {
			if p, ok := posBefore[s]; ok && p != v2.SlotPos[s] {
				moved = true
			}
		}
		if nonEmptyBefore && len(expect) > 0 && (moved || len(b.Rem) > 0) {
			res.NonTrivial = true
			res.count("nontrivial_blocks", 1)
		}
		// forced classes
		if inSet(b.Rem, b.Add-1) && b.Add > 0 {
			res.count("remember_last_leaf", 1)
			if n := v2.NodeAt[v2.SlotPos[first+b.Add-1]]; n != nil && n.Up == nil {
				res.count("remember_leaf_that_is_a_lone_root", 1)
			}
		}
		if sh.overwritesEmpty && len(b.Rem) > 0 {
			res.count("remember_in_block_overwriting_empty_root", 1)
		}
		if moved {
			res.count("cached_leaf_moved", 1)
		}
	}
	res.count("blocks", len(c.Blocks))
	return res
}

func TestC07(t *testing.T) {
	runSpec(t, Spec[C07Case]{ID: "C07", Gen: genC07, Run: runC07, Pre: preScaleC07})
}

// checkCachedProofEmbedded is checkCachedProof for a light client that follows the forest f embedded
// behind `high` opaque leaves: exactly the expected leaves, each at its shifted position, the same
// canonical proof hashes, accepted by Verify against the embedded stump.
func checkCachedProofEmbedded(f *model.Forest, high uint64, stump u.Stump, hashes []Hash, proof u.Proof, expect map[int]bool) error {
	v2 := f.View()
	if len(hashes) != len(proof.Targets) {
		return fmt.Errorf("%d cached hashes but %d targets", len(hashes), len(proof.Targets))
	}
	held := map[int]bool{}
	for k, h := range hashes {
		p, live := v2.LeafPos[h]
		if !live {
			return fmt.Errorf("cached hash %s is not a live leaf", shortH(h))
		}
		slot := v2.NodeAt[p].Slot
		if held[slot] {
			return fmt.Errorf("the leaf of slot %d is cached twice", slot)
		}
		held[slot] = true
		if want := embedPos(p, v2, high); proof.Targets[k] != want {
			return fmt.Errorf("cached leaf of slot %d is paired with position %d, its position is %d", slot, proof.Targets[k], want)
		}
	}
	for sl := range expect {
		if !held[sl] {
			return fmt.Errorf("the leaf of slot %d should be held but is missing from the cached proof (held positions %v)", sl, proof.Targets)
		}
	}
	if len(held) != len(expect) {
		return fmt.Errorf("the cached proof holds %d leaves, expected exactly %d", len(held), len(expect))
	}
	if want := v2.Proof(hashes); !eqHashes(want.Proof, proof.Proof) {
		return fmt.Errorf("cached proof hashes %s are not the canonical ones %s (positions %v)", shortHs(proof.Proof), shortHs(want.Proof), proof.Targets)
	}
	if len(hashes) > 0 {
		if _, err := u.Verify(copyStump(stump), cloneHashes(hashes), cloneProof(proof)); err != nil {
			return fmt.Errorf("Verify rejects the cached proof: %v", err)
		}
	}
	return nil
}

package props

// C13 - serialization round-trips exactly; damaged streams are never accepted silently.
//
// Level: fault enumeration. Per generated reachable state: every reader chunking of a fixed
// family, every truncation point of the stream (all of them up to a size bound, otherwise field
// boundaries of both ends plus rapid-drawn offsets), every failure offset of the sink (same
// offset set, two sink behaviours).

import (
	"bytes"
	"errors"
	"fmt"
	"io"
	"sort"
	"testing"
	"testing/iotest"

	u "github.com/utreexo/utreexo"
	"pgregory.net/rapid"
)

type C13Case struct {
	Cfg    Cfg     `json:"cfg"`
	Steps  []WStep `json:"steps"`
	After  []WStep `json:"after"`
	Chunks []int   `json:"chunks"` // sizes of the successive reads of the "random chunking" reader (cycled)
	Cuts   []int   `json:"cuts"`   // seeds of sampled truncation / sink-failure offsets (offset = seed mod len)
	// Early: indexes of Steps after which the forest is ALSO written (and that stream restored and
	// compared): a long-lived object is flushed again and again, with any kind of call in between
	Early []int `json:"early,omitempty"`
	// HighProbe: instead of all the above, the deterministic huge-leaf-count probe (see preHighC13)
	HighProbe *c13High `json:"highprobe,omitempty"`
}

type c13High struct {
	High   uint64  `json:"high"`
	Blocks []Block `json:"blocks"`
}

func genC13(t *rapid.T) C13Case {
	lim := tierLimits()
	if !thorough() {
		lim.maxLeaves, lim.maxBlocks = 64, 10
	} else {
		lim.maxLeaves, lim.maxBlocks, lim.maxAdd = 400, 24, 80
	}
	if bigCase(t) { // streams of tens of kilobytes: offsets are then sampled (both ends + drawn windows)
		lim.maxLeaves, lim.maxBlocks, lim.maxAdd = 900, 10, 400
	}
	var c C13Case
	switch rapid.IntRange(0, 2).Draw(t, "kind") {
	case 0:
		c.Cfg = Cfg{Kind: "pollard"}
	case 1:
		c.Cfg = genMapCfg(t, "cfg")
		c.Cfg.Full = true
	default:
		c.Cfg = genMapCfg(t, "cfg")
		c.Cfg.Full = false
	}
	partial := c.Cfg.Kind == "map" && !c.Cfg.Full
	g := newWgen(partial)
	ops := []string{"block", "block", "block", "block", "undo", "verify"}
	if partial {
		ops = append(ops, "prune", "ingest", "verify", "vpp")
	}
	if rapid.Bool().Draw(t, "restarts") {
		ops = append(ops, "restart") // a forest that has been through earlier restarts
	}
	n := rapid.IntRange(1, lim.maxBlocks).Draw(t, "nsteps")
	for i := 0; i < n; i++ {
		c.Steps = append(c.Steps, g.next(t, lim, ops))
	}
	for i := 0; i < n; i++ {
		if rapid.IntRange(0, 3).Draw(t, "early") == 0 {
			c.Early = append(c.Early, i)
		}
	}
	if n >= 2 && rapid.Bool().Draw(t, "early-before-last") {
		if k := len(c.Early); k == 0 || c.Early[k-1] != n-2 {
			c.Early = append(c.Early, n-2) // written, ONE more call of any kind, written again
			sort.Ints(c.Early)
		}
	}
	// continuation: at least three blocks and an undo, as the statement asks
	na := rapid.IntRange(4, 7).Draw(t, "nafter")
	undoAt := rapid.IntRange(1, na-1).Draw(t, "undoat")
	small := lim
	small.maxAdd = 6
	for i := 0; i < na; i++ {
		if i == undoAt {
			c.After = append(c.After, g.next(t, small, []string{"undo"}))
			continue
		}
		aops := []string{"block", "block", "block", "undo"}
		if partial {
			aops = append(aops, "prune", "verify")
		}
		c.After = append(c.After, g.next(t, small, aops))
	}
	c.Chunks = rapid.SliceOfN(rapid.IntRange(1, 70), 1, 6).Draw(t, "chunks")
	c.Cuts = rapid.SliceOfN(rapid.IntRange(0, 1<<30), 8, 24).Draw(t, "cuts")
	return c
}

// chunkReader hands out the data in reads of the given sizes (cycled); when eofWithData is set the
// final read returns its bytes together with io.EOF, as a conforming reader may.
type chunkReader struct {
	data        []byte
	sizes       []int
	i           int
	eofWithData bool
	served      int
}

func (r *chunkReader) Read(p []byte) (int, error) {
	if len(r.data) == 0 {
		return 0, io.EOF
	}
	if len(p) == 0 {
		return 0, nil
	}
	n := r.sizes[r.i%len(r.sizes)]
	r.i++
	if n > len(p) {
		n = len(p)
	}
	if n > len(r.data) {
		n = len(r.data)
	}
	copy(p, r.data[:n])
	r.data = r.data[n:]
	r.served += n
	if len(r.data) == 0 && r.eofWithData {
		return n, io.EOF
	}
	return n, nil
}

// countingReader counts the bytes the wrapped reader handed out.
type countingReader struct {
	r io.Reader
	n int
}

func (c *countingReader) Read(p []byte) (int, error) {
	n, err := c.r.Read(p)
	c.n += n
	return n, err
}

var errSink = errors.New("sink failed")

// failingSink accepts limit bytes in total. partial=false: a Write that would cross the limit is
// refused completely (0, err). partial=true: it accepts what fits and returns (k, err).
type failingSink struct {
	limit    int
	partial  bool
	accepted int
}

func (s *failingSink) Write(p []byte) (int, error) {
	room := s.limit - s.accepted
	if len(p) <= room {
		s.accepted += len(p)
		return len(p), nil
	}
	if !s.partial {
		return 0, errSink
	}
	s.accepted += room
	return room, errSink
}

func serialize(in *Inst, w io.Writer) (int, error) {
	if in.P != nil {
		n, err := in.P.WriteTo(w)
		return int(n), err
	}
	return in.M.Write(w)
}

// restore never lets a panic escape: a panic is reported through perr.
func restore(cfg Cfg, r io.Reader) (in *Inst, n int, err error, perr error) {
	defer func() {
		if p := recover(); p != nil {
			perr = fmt.Errorf("panic: %v", p)
		}
	}()
	if cfg.Kind == "pollard" {
		n64, p, e := u.RestorePollardFrom(r)
		if e != nil {
			return nil, int(n64), e, nil
		}
		return &Inst{Cfg: cfg, P: p}, int(n64), nil, nil
	}
	m := u.NewMapPollard(cfg.Full)
	if cfg.Ext {
		extStores(&m)
	}
	k, e := m.Read(r)
	if e != nil {
		return nil, k, e, nil
	}
	return &Inst{Cfg: cfg, M: &m}, k, nil, nil
}

// sameState: what a caller (and, for a map forest, the exported maps) can see of two instances.
func sameState(a, b *Inst, maxPos uint64, ever []Hash) error {
	if a.NumLeaves() != b.NumLeaves() {
		return fmt.Errorf("leaf count %d vs %d", a.NumLeaves(), b.NumLeaves())
	}
	if !eqHashes(a.Roots(), b.Roots()) {
		return fmt.Errorf("roots %s vs %s", shortHs(a.Roots()), shortHs(b.Roots()))
	}
	for p := uint64(0); p <= maxPos; p++ {
		if x, y := a.Acc().GetHash(p), b.Acc().GetHash(p); x != y {
			return fmt.Errorf("GetHash(%d): %s vs %s", p, shortH(x), shortH(y))
		}
	}
	for _, h := range ever {
		pa, oka := a.Acc().GetLeafPosition(h)
		pb, okb := b.Acc().GetLeafPosition(h)
		if oka != okb || pa != pb {
			return fmt.Errorf("GetLeafPosition(%s): (%d,%v) vs (%d,%v)", shortH(h), pa, oka, pb, okb)
		}
	}
	if a.P != nil {
		if a.P.NumDels != b.P.NumDels || len(a.P.NodeMap) != len(b.P.NodeMap) {
			return fmt.Errorf("deletion count / tracked leaves: %d,%d vs %d,%d", a.P.NumDels, len(a.P.NodeMap), b.P.NumDels, len(b.P.NodeMap))
		}
		if a.P.SerializeSize() != b.P.SerializeSize() {
			return fmt.Errorf("SerializeSize %d vs %d", a.P.SerializeSize(), b.P.SerializeSize())
		}
		return nil
	}
	if a.M.TotalRows != b.M.TotalRows {
		return fmt.Errorf("TotalRows %d vs %d", a.M.TotalRows, b.M.TotalRows)
	}
	if a.M.CachedLeaves.Length() != b.M.CachedLeaves.Length() {
		return fmt.Errorf("%d vs %d cached leaves", a.M.CachedLeaves.Length(), b.M.CachedLeaves.Length())
	}
	if a.M.Nodes.Length() != b.M.Nodes.Length() {
		return fmt.Errorf("%d vs %d stored positions", a.M.Nodes.Length(), b.M.Nodes.Length())
	}
	var derr error
	a.M.Nodes.ForEach(func(pos uint64, l u.Leaf) error {
		o, ok := b.M.Nodes.Get(pos)
		if derr == nil && (!ok || o.Hash != l.Hash || o.Remember != l.Remember) {
			derr = fmt.Errorf("stored position %d: (%s,remember=%v) vs (%s,remember=%v,stored=%v)", pos, shortH(l.Hash), l.Remember, shortH(o.Hash), o.Remember, ok)
		}
		return nil
	})
	return derr
}

func runC13(c C13Case) *Result {
	res := &Result{}
	if c.HighProbe != nil {
		if err := highC13Unit(c.HighProbe.High, c.HighProbe.Blocks); err != nil {
			return res.failf("serialization of a forest behind %d opaque leaves: %v", c.HighProbe.High, err)
		}
		res.NonTrivial = true
		res.class("huge-leaf-count-probe")
		return res
	}
	if c.Cfg.Kind != "pollard" && c.Cfg.Kind != "map" {
		return res.failf("case error: kind %q cannot be serialized", c.Cfg.Kind)
	}
	w := newWorld([]Cfg{c.Cfg})
	anyDel, wroteEarly := false, false
	for i, st := range c.Steps {
		ce, oe := w.step(i, st)
		if ce != nil {
			return res.failf("%v", ce)
		}
		if oe != nil && st.Op == "restart" {
			return res.failf("%v", oe)
		}
		if oe != nil {
			res.class("setup-failed")
			return res
		}
		if st.Op == "restart" {
			if err := w.check(); err != nil {
				return res.failf("step %d: after the forest was written out and restored: %v", i, err)
			}
			res.count("restarts-in-the-history", 1)
		}
		if st.Op == "block" && len(st.B.Del) > 0 {
			anyDel = true
		}
		if inSet(c.Early, i) && i < len(c.Steps)-1 {
			var eb bytes.Buffer
			en, err := serialize(w.insts[0], &eb)
			if err != nil {
				return res.failf("%s: writing after step %d failed: %v", c.Cfg, i, err)
			}
			if en != eb.Len() {
				return res.failf("%s: write after step %d reported %d bytes, %d were produced", c.Cfg, i, en, eb.Len())
			}
			in, _, rerr, perr := restore(c.Cfg, bytes.NewReader(eb.Bytes()))
			if perr != nil {
				return res.failf("%s: restoring the stream written after step %d panicked: %v", c.Cfg, i, perr)
			}
			if rerr != nil {
				return res.failf("%s: restoring the stream written after step %d failed: %v", c.Cfg, i, rerr)
			}
			if err := sameState(w.insts[0], in, w.f.View().MaxPos()+4, w.ever); err != nil {
				return res.failf("%s: written after step %d (%s) and restored: %v", c.Cfg, i, st.Op, err)
			}
			res.count("intermediate-writes", 1)
			wroteEarly = true
		}
	}
	if wroteEarly {
		res.class("written-more-than-once")
	}
	if err := w.check(); err != nil {
		res.class("setup-failed") // the state itself is wrong: C01/C06/C09's business
		return res
	}
	orig := w.insts[0]
	v := w.f.View()
	maxPos := v.MaxPos() + 4
	res.class("kind:" + func() string {
		if c.Cfg.Kind == "pollard" {
			return "pollard"
		}
		if c.Cfg.Full {
			return "map-full"
		}
		return "map-partial"
	}())

	// 1. write
	var buf bytes.Buffer
	n, err := serialize(orig, &buf)
	if err != nil {
		return res.failf("%s: writing to a bytes.Buffer failed: %v", c.Cfg, err)
	}
	stream := buf.Bytes()
	if n != len(stream) {
		return res.failf("%s: write reported %d bytes, %d were produced", c.Cfg, n, len(stream))
	}
	if orig.P != nil {
		if sz := orig.P.SerializeSize(); sz != len(stream) {
			return res.failf("pollard: SerializeSize() = %d, WriteTo produced %d bytes (N=%d)", sz, len(stream), v.N)
		}
	}

	// 2. round trip under every chunking
	if len(c.Chunks) == 0 {
		c.Chunks = []int{7}
	}
	for _, k := range c.Chunks {
		if k < 1 {
			return res.failf("case error: chunk size %d", k)
		}
	}
	type mk func(data []byte) io.Reader
	trailing := bytes.Repeat([]byte{0xA5, 0x01, 0x00, 0xFF, 0x20}, 1800) // 9000 bytes that are not part of the stream
	chunkings := []struct {
		name string
		mk   mk
	}{
		{"whole", func(d []byte) io.Reader { return bytes.NewReader(d) }},
		{"one-byte", func(d []byte) io.Reader { return iotest.OneByteReader(bytes.NewReader(d)) }},
		{"halves", func(d []byte) io.Reader { return iotest.HalfReader(bytes.NewReader(d)) }},
		{"data-with-eof", func(d []byte) io.Reader { return iotest.DataErrReader(bytes.NewReader(d)) }},
		{"random-chunks", func(d []byte) io.Reader { return &chunkReader{data: d, sizes: c.Chunks} }},
		{"random-chunks-data-with-eof", func(d []byte) io.Reader { return &chunkReader{data: d, sizes: c.Chunks, eofWithData: true} }},
		// the stream is followed by other data in the same reader (several objects in one file):
		// restore must consume exactly its own bytes
		{"whole+trailing-data", func(d []byte) io.Reader { return bytes.NewReader(append(d, trailing...)) }},
		{"random-chunks+trailing-data", func(d []byte) io.Reader { return &chunkReader{data: append(d, trailing...), sizes: c.Chunks} }},
	}
	for _, ch := range chunkings {
		cr := &countingReader{r: ch.mk(append([]byte(nil), stream...))}
		in, got, err, perr := restore(c.Cfg, cr)
		if perr != nil {
			return res.failf("%s: restoring the %d-byte stream through a %s reader: %v", c.Cfg, len(stream), ch.name, perr)
		}
		if err != nil {
			return res.failf("%s: restoring the complete %d-byte stream through a %s reader failed: %v", c.Cfg, len(stream), ch.name, err)
		}
		if got != len(stream) || cr.n != len(stream) {
			return res.failf("%s: restore through a %s reader reported %d bytes and consumed %d, the stream has %d", c.Cfg, ch.name, got, cr.n, len(stream))
		}
		if err := w.checkOne(in); err != nil {
			return res.failf("restored through a %s reader: %v", ch.name, err)
		}
		if err := sameState(orig, in, maxPos, w.ever); err != nil {
			return res.failf("%s: original vs restored (%s reader): %v", c.Cfg, ch.name, err)
		}
		w.insts = append(w.insts, in)
		res.count("roundtrip:"+ch.name, 1)
	}

	// 3. offsets for truncation and sink failure
	var offs []int
	full := 2500
	if thorough() {
		full = 6000
	}
	if len(stream) <= full {
		for i := 0; i < len(stream); i++ {
			offs = append(offs, i)
		}
		res.class("offsets:all")
	} else {
		seen := map[int]bool{}
		addOff := func(o int) {
			if o >= 0 && o < len(stream) && !seen[o] {
				seen[o] = true
				offs = append(offs, o)
			}
		}
		for i := 0; i < 700; i++ {
			addOff(i)
			addOff(len(stream) - 1 - i)
		}
		for _, s := range c.Cuts {
			base := s % len(stream)
			for d := -40; d <= 40; d++ {
				addOff(base + d)
			}
		}
		res.class("offsets:ends+sampled")
	}

	// 3a. truncated streams
	for _, cut := range offs {
		variants := []mk{chunkings[0].mk}
		if cut%7 == 3 {
			variants = append(variants, chunkings[3].mk, chunkings[4].mk)
		}
		for vi, mkr := range variants {
			cr := &countingReader{r: mkr(append([]byte(nil), stream[:cut]...))}
			in, got, err, perr := restore(c.Cfg, cr)
			res.count("truncations", 1)
			if perr != nil {
				return res.failf("%s: restoring the first %d of %d bytes (reader variant %d): %v", c.Cfg, cut, len(stream), vi, perr)
			}
			if got < 0 || got > cr.n {
				return res.failf("%s: restoring the first %d of %d bytes reported %d bytes read, %d were consumed", c.Cfg, cut, len(stream), got, cr.n)
			}
			if err != nil {
				res.count("truncation-rejected", 1)
				continue
			}
			// accepted: must be the original state
			if e := w.checkOne(in); e != nil {
				return res.failf("%s: the first %d of %d bytes were accepted without error but give a different state: %v", c.Cfg, cut, len(stream), e)
			}
			if e := sameState(orig, in, maxPos, w.ever); e != nil {
				return res.failf("%s: the first %d of %d bytes were accepted without error but give a different state: %v", c.Cfg, cut, len(stream), e)
			}
			res.count("truncation-accepted-identical", 1)
		}
	}

	// 3b. failing sinks
	for _, lim := range offs {
		for _, partial := range []bool{false, true} {
			s := &failingSink{limit: lim, partial: partial}
			var got int
			var err error
			perr := func() (perr error) {
				defer func() {
					if p := recover(); p != nil {
						perr = fmt.Errorf("panic: %v", p)
					}
				}()
				got, err = serialize(orig, s)
				return nil
			}()
			res.count("sink-failures", 1)
			if perr != nil {
				return res.failf("%s: writing to a sink that fails after %d bytes: %v", c.Cfg, lim, perr)
			}
			if err == nil {
				return res.failf("%s: writing %d bytes to a sink that fails after %d bytes returned no error (reported %d bytes)", c.Cfg, len(stream), lim, got)
			}
			if !errors.Is(err, errSink) {
				res.count("sink-error-not-passed-through", 1)
			}
			if got < 0 || got > s.accepted {
				return res.failf("%s: sink accepted %d bytes before failing, the writer reported %d", c.Cfg, s.accepted, got)
			}
			if !partial && got != s.accepted {
				return res.failf("%s: sink accepted %d bytes (whole writes only) before failing, the writer reported %d", c.Cfg, s.accepted, got)
			}
		}
	}
	if err := w.checkOne(orig); err != nil {
		return res.failf("after the failed writes the original changed: %v", err)
	}
	// a write that failed must not show in the next one: write once more to a healthy sink
	if len(offs) > 0 {
		var again bytes.Buffer
		an, aerr := serialize(orig, &again)
		if aerr != nil || an != again.Len() || an != len(stream) {
			return res.failf("%s: the write after %d failed writes reported %d bytes, produced %d (the first write: %d), error %v", c.Cfg, 2*len(offs), an, again.Len(), len(stream), aerr)
		}
		in, _, rerr, perr := restore(c.Cfg, bytes.NewReader(again.Bytes()))
		if perr != nil || rerr != nil {
			return res.failf("%s: restoring the stream written after the failed writes: %v %v", c.Cfg, rerr, perr)
		}
		if e := sameState(orig, in, maxPos, w.ever); e != nil {
			return res.failf("%s: the stream written after %d failed writes restores to a different state: %v", c.Cfg, 2*len(offs), e)
		}
		res.count("writes-after-failed-writes", 1)
	}

	// 4. original and every restored copy evolve identically
	for i, st := range c.After {
		ce, oe := w.step(len(c.Steps)+i, st)
		if ce != nil {
			return res.failf("%v", ce)
		}
		if oe != nil {
			return res.failf("continuing after the round trip: %v", oe)
		}
		if err := w.check(); err != nil {
			return res.failf("continuation step %d (%s) after the round trip: %v", i, st.Op, err)
		}
		mp := w.f.View().MaxPos() + 4
		for k := 1; k < len(w.insts); k++ {
			if err := sameState(w.insts[0], w.insts[k], mp, w.ever); err != nil {
				return res.failf("%s: after continuation step %d (%s) the original and the copy restored through a %s reader differ: %v", c.Cfg, i, st.Op, chunkings[k-1].name, err)
			}
		}
		res.count("continuation-steps", 1)
	}

	shapeOK := false
	for _, r := range v.Roots {
		if r == (Hash{}) {
			shapeOK = true
		}
	}
	for _, nd := range v.NodeAt {
		if nd.IsLeaf() && nd.Row >= 1 {
			shapeOK = true
		}
	}
	res.NonTrivial = anyDel && shapeOK && len(stream) >= 200
	return res
}

func TestC13(t *testing.T) {
	runSpec(t, Spec[C13Case]{ID: "C13", Gen: genC13, Run: runC13, Pre: preHighC13})
}

package props

// C14 - proof combination, restriction and completion are exact.

import (
	"fmt"
	"sort"
	"testing"

	u "github.com/utreexo/utreexo"
	"pgregory.net/rapid"
	"verifharness/model"
)

type C14Case struct {
	Rows  int     `json:"rows"`  // TotalRows of the partial map forest
	Steps []WStep `json:"steps"` // history (block / verify / prune / undo) reaching the state
	A     []int   `json:"a"`     // slots of proof A, in the order its targets/hashes are given
	B     []int   `json:"b"`     // slots of proof B, likewise
	Wants []int   `json:"wants"` // restriction request: slots, in request order (may name slots outside A)
	Req   []int   `json:"req"`   // targets asked of MapPollard.GetMissingPositions / VerifyPartialProof
	// Req2: a second request right after the first, usually of the same length, handed over in the SAME
	// argument buffers (a caller recycling its scratch slices)
	Req2 []int  `json:"req2,omitempty"`
	Rel  string `json:"rel,omitempty"`
}

// related draws a second target set with a forced relation to the first.
func genRelated(t *rapid.T, f *model.Forest, a []int) ([]int, string) {
	live := f.Live()
	v := f.View()
	inA := map[int]bool{}
	for _, s := range a {
		inA[s] = true
	}
	mode := rapid.SampledFrom([]string{"free", "overlap", "siblings", "cousins", "othertree", "superset", "same", "disjoint"}).Draw(t, "rel")
	var b []int
	switch mode {
	case "free":
		b = genRequest(t, f)
	case "overlap":
		b = append(b, subsetP(t, a, 1, 2, "ov")...)
		for _, s := range live {
			if !inA[s] && rapid.IntRange(0, 3).Draw(t, "ovx") == 0 {
				b = append(b, s)
			}
		}
	case "siblings": // leaves whose sibling node is a leaf of A
		for _, s := range a {
			if n := v.NodeAt[v.SlotPos[s]^1]; n != nil && !v.IsRoot[v.SlotPos[s]] && n.IsLeaf() {
				b = append(b, n.Slot)
			}
		}
	case "cousins": // leaves under the sibling of an A leaf's parent
		for _, s := range a {
			n := v.NodeAt[v.SlotPos[s]]
			if n.Up == nil || n.Up.Up == nil {
				continue
			}
			unc := n.Up.Up.L
			if unc == n.Up {
				unc = n.Up.Up.R
			}
			for x := unc; x != nil; x = x.L {
				if x.IsLeaf() {
					b = append(b, x.Slot)
					break
				}
			}
		}
	case "othertree":
		trees := map[int]bool{}
		for _, s := range a {
			trees[v.NodeAt[v.SlotPos[s]].Tree] = true
		}
		for _, s := range live {
			if !trees[v.NodeAt[v.SlotPos[s]].Tree] && rapid.Bool().Draw(t, "ot") {
				b = append(b, s)
			}
		}
	case "superset":
		b = append(b, a...)
		b = append(b, subsetP(t, live, 1, 3, "sup")...)
	case "same":
		b = append(b, a...)
	case "disjoint":
		for _, s := range live {
			if !inA[s] && rapid.Bool().Draw(t, "dj") {
				b = append(b, s)
			}
		}
	}
	// dedupe
	seen := map[int]bool{}
	var out []int
	for _, s := range b {
		if !seen[s] {
			seen[s] = true
			out = append(out, s)
		}
	}
	if len(out) == 0 {
		mode = "fallback-" + mode
		out = []int{rapid.SampledFrom(live).Draw(t, "bf")}
	}
	return permute(t, out, "bperm"), mode
}

func genC14(t *rapid.T) C14Case {
	lim := genLimits(t)
	c := C14Case{Rows: rapid.SampledFrom([]int{0, 0, 3, 5, 6, 8, 63, 63}).Draw(t, "rows")}
	g := newWgen(true)
	n := rapid.IntRange(1, lim.maxBlocks).Draw(t, "nsteps")
	ops := []string{"block", "block", "block", "block", "verify", "vpp", "prune", "undo", "restart"}
	for i := 0; i < n; i++ {
		c.Steps = append(c.Steps, g.next(t, lim, ops))
	}
	if g.f.NumLive() == 0 { // make sure there is something to prove
		c.Steps = append(c.Steps, g.addOnly(rapid.IntRange(1, 9).Draw(t, "force-add")))
	}
	f := g.f
	c.A = genRequest(t, f)
	c.B, c.Rel = genRelated(t, f, c.A)
	// restriction request: a sub-list of A in a drawn order; sometimes with a slot outside A
	w := subsetP(t, c.A, 1, 2, "want")
	if len(w) == 0 || rapid.IntRange(0, 5).Draw(t, "wantall") == 0 {
		w = append([]int(nil), c.A...)
	}
	w = permute(t, w, "wperm")
	if rapid.IntRange(0, 5).Draw(t, "foreign") == 0 {
		inA := map[int]bool{}
		for _, s := range c.A {
			inA[s] = true
		}
		var out []int
		for _, s := range f.Live() {
			if !inA[s] {
				out = append(out, s)
			}
		}
		if len(out) > 0 {
			x := rapid.SampledFrom(out).Draw(t, "foreign-slot")
			at := rapid.IntRange(0, len(w)).Draw(t, "foreign-at")
			w = append(w[:at:at], append([]int{x}, w[at:]...)...)
		}
	}
	c.Wants = w
	c.Req, _ = genRelated(t, f, g.trackedList())
	if live := f.Live(); len(c.Req) > 0 && len(live) > 0 && rapid.IntRange(0, 3).Draw(t, "second-req") != 0 {
		n := len(c.Req)
		if n > len(live) || rapid.IntRange(0, 4).Draw(t, "req2-otherlen") == 0 {
			n = rapid.IntRange(1, len(live)).Draw(t, "req2-len")
		}
		c.Req2 = rapid.Permutation(live).Draw(t, "req2")[:n:n]
	}
	return c
}

func posOfSlots(v *model.View, slots []int) []uint64 {
	out := make([]uint64, len(slots))
	for i, s := range slots {
		out[i] = v.SlotPos[s]
	}
	return out
}

func sortedU64(x []uint64) []uint64 {
	out := cloneU64(x)
	sort.Slice(out, func(a, b int) bool { return out[a] < out[b] })
	return out
}

func setOf(x []uint64) map[uint64]bool {
	m := map[uint64]bool{}
	for _, p := range x {
		m[p] = true
	}
	return m
}

func hashesAt(v *model.View, pos []uint64) []Hash {
	out := make([]Hash, len(pos))
	for i, p := range pos {
		out[i] = v.At[p]
	}
	return out
}

func runC14(c C14Case) *Result {
	res := &Result{}
	w := newWorld([]Cfg{{Kind: "map", Full: false, Rows: c.Rows}})
	for i, st := range c.Steps {
		ce, oe := w.step(i, st)
		if ce != nil {
			return res.failf("%v", ce)
		}
		if oe != nil {
			res.class("setup-failed")
			return res
		}
	}
	if err := w.check(); err != nil {
		res.class("setup-failed")
		return res
	}
	f := w.f
	v := f.View()
	for _, l := range [][]int{c.A, c.B, c.Wants, c.Req, c.Req2} {
		if err := w.liveCheck(-1, l); err != nil {
			return res.failf("%v", err)
		}
		seen := map[int]bool{}
		for _, s := range l {
			if seen[s] {
				return res.failf("case error: slot %d listed twice", s)
			}
			seen[s] = true
		}
	}
	if len(c.A) == 0 || len(c.B) == 0 {
		return res.failf("case error: empty target set")
	}
	stump := u.Stump{Roots: cloneHashes(v.Roots), NumLeaves: v.N}
	hA, hB := f.HashesOf(c.A), f.HashesOf(c.B)
	pA, pB := v.Proof(hA), v.Proof(hB)
	res.class("rel:" + c.Rel)
	ascending := func(x []uint64) bool {
		return sort.SliceIsSorted(x, func(a, b int) bool { return x[a] < x[b] })
	}
	unsorted := !ascending(pA.Targets) || !ascending(pB.Targets)
	if unsorted {
		res.class("input-not-position-sorted")
	}

	// ---- AddProof -------------------------------------------------------------------------
	{
		gotH, gotP := u.AddProof(cloneProof(pA), cloneProof(pB), cloneHashes(hA), cloneHashes(hB), v.N)
		union := map[uint64]Hash{}
		for i, t := range pA.Targets {
			union[t] = hA[i]
		}
		for i, t := range pB.Targets {
			union[t] = hB[i]
		}
		if len(gotP.Targets) != len(union) || len(gotH) != len(gotP.Targets) {
			return res.failf("AddProof(A=%v, B=%v): %d targets and %d hashes returned, the union has %d (N=%d)", pA.Targets, pB.Targets, len(gotP.Targets), len(gotH), len(union), v.N)
		}
		seen := map[uint64]bool{}
		for i, t := range gotP.Targets {
			h, ok := union[t]
			if !ok || seen[t] {
				return res.failf("AddProof(A=%v, B=%v) returned targets %v: %d is not in the union or repeated", pA.Targets, pB.Targets, gotP.Targets, t)
			}
			seen[t] = true
			if gotH[i] != h {
				return res.failf("AddProof(A=%v, B=%v): hash returned for target %d is %s, the leaf there is %s", pA.Targets, pB.Targets, t, shortH(gotH[i]), shortH(h))
			}
		}
		need, _ := v.ProofPositions(gotP.Targets)
		if want := hashesAt(v, need); !eqHashes(gotP.Proof, want) {
			return res.failf("AddProof(A=%v, B=%v) (N=%d): proof hashes %s, canonical proof of the union (positions %v) is %s", pA.Targets, pB.Targets, v.N, shortHs(gotP.Proof), need, shortHs(want))
		}
		if _, err := u.Verify(stump, cloneHashes(gotH), cloneProof(gotP)); err != nil {
			return res.failf("AddProof(A=%v, B=%v): Verify rejects the combined proof: %v", pA.Targets, pB.Targets, err)
		}
		inter := 0
		for _, t := range pB.Targets {
			if setOf(pA.Targets)[t] {
				inter++
			}
		}
		if inter > 0 {
			res.class("addproof:overlapping")
		}
	}

	// ---- GetProofSubset -------------------------------------------------------------------
	sharedParent := false
	{
		wantPos := make([]uint64, len(c.Wants))
		inA := map[int]bool{}
		for _, s := range c.A {
			inA[s] = true
		}
		covered := true
		for i, s := range c.Wants {
			wantPos[i] = v.SlotPos[s]
			if !inA[s] {
				covered = false
			}
		}
		gotH, gotP, err := u.GetProofSubset(cloneProof(pA), cloneHashes(hA), cloneU64(wantPos), v.N)
		switch {
		case !covered:
			res.class("subset:uncovered-want")
			if err == nil {
				return res.failf("GetProofSubset(targets %v, wants %v): no error although a wanted position is not a target of the proof", pA.Targets, wantPos)
			}
		case err != nil:
			return res.failf("GetProofSubset(targets %v, wants %v) (N=%d) failed although every wanted position is a target: %v", pA.Targets, wantPos, v.N, err)
		default:
			wantH := f.HashesOf(c.Wants)
			if !eqU64(gotP.Targets, wantPos) {
				return res.failf("GetProofSubset(targets %v, wants %v): returned targets %v, want the requested order", pA.Targets, wantPos, gotP.Targets)
			}
			if !eqHashes(gotH, wantH) {
				return res.failf("GetProofSubset(targets %v, wants %v) (N=%d): returned hashes %s, the leaves at the wanted positions are %s", pA.Targets, wantPos, v.N, shortHs(gotH), shortHs(wantH))
			}
			canon := v.Proof(wantH)
			if !eqHashes(gotP.Proof, canon.Proof) {
				return res.failf("GetProofSubset(targets %v, wants %v) (N=%d): proof hashes %s, canonical %s", pA.Targets, wantPos, v.N, shortHs(gotP.Proof), shortHs(canon.Proof))
			}
			if len(wantPos) > 0 {
				if _, err := u.Verify(stump, cloneHashes(gotH), cloneProof(gotP)); err != nil {
					return res.failf("GetProofSubset(targets %v, wants %v): Verify rejects the restricted proof: %v", pA.Targets, wantPos, err)
				}
			}
			if !ascending(wantPos) {
				res.class("subset:wants-not-sorted")
			}
		}
	}

	// ---- GetMissingPositions (function) ---------------------------------------------------
	{
		needA, compA := v.ProofPositions(pA.Targets)
		have := setOf(needA)
		for _, p := range pA.Targets {
			have[p] = true
		}
		for _, p := range compA {
			have[p] = true
		}
		inA := setOf(pA.Targets)
		var extra []uint64
		for _, p := range pB.Targets {
			if !inA[p] {
				extra = append(extra, p)
			}
		}
		var want []uint64
		if len(extra) > 0 {
			needD, _ := v.ProofPositions(extra)
			for _, p := range needD {
				if !have[p] {
					want = append(want, p)
				}
			}
		}
		// nothing held yet (a nil or an empty target list): everything B needs is missing
		{
			needB, _ := v.ProofPositions(pB.Targets)
			for _, none := range [][]uint64{nil, {}} {
				if g := u.GetMissingPositions(v.N, none, cloneU64(pB.Targets)); !eqU64(g, needB) && !(len(g) == 0 && len(needB) == 0) {
					return res.failf("GetMissingPositions(N=%d, nothing held (nil=%v), desired %v) = %v, the proof positions of the desired targets are %v", v.N, none == nil, pB.Targets, g, needB)
				}
			}
		}
		got := u.GetMissingPositions(v.N, cloneU64(pA.Targets), cloneU64(pB.Targets))
		if !eqU64(got, want) {
			return res.failf("GetMissingPositions(N=%d, have targets %v, desired %v) = %v, reference %v", v.N, pA.Targets, pB.Targets, got, want)
		}
		// supplying the true hashes at exactly those positions lets the union verify
		byPos := map[uint64]Hash{}
		for i, p := range needA {
			byPos[p] = pA.Proof[i]
		}
		for _, p := range got {
			byPos[p] = v.At[p]
		}
		var ut []uint64
		var uh []Hash
		ut = append(ut, pA.Targets...)
		uh = append(uh, hA...)
		for _, p := range extra {
			ut = append(ut, p)
			uh = append(uh, v.At[p])
		}
		needU, _ := v.ProofPositions(ut)
		up := u.Proof{Targets: ut}
		for _, p := range needU {
			h, ok := byPos[p]
			if !ok {
				return res.failf("GetMissingPositions(N=%d, have %v, desired %v) = %v: position %d is needed to prove the union and is neither held nor reported missing", v.N, pA.Targets, pB.Targets, got, p)
			}
			up.Proof = append(up.Proof, h)
		}
		if _, err := u.Verify(stump, uh, up); err != nil {
			return res.failf("GetMissingPositions(N=%d, have %v, desired %v): proof completed with the reported positions %v is rejected: %v", v.N, pA.Targets, pB.Targets, got, err)
		}
		for _, p := range pA.Targets {
			if inA[p^1] {
				sharedParent = true
			}
		}
		for _, p := range extra {
			if inA[p^1] {
				sharedParent = true
			}
		}
		if len(got) > 0 {
			res.class("missing:nonempty")
		}
	}

	// ---- MapPollard.GetMissingPositions + VerifyPartialProof ------------------------------
	for ri, req := range [][]int{c.Req, c.Req2} {
		if len(req) == 0 {
			continue
		}
		if ri == 1 {
			res.class("map-missing:second-request-same-buffers")
		}
		m := w.insts[0].M
		ar := &w.insts[0].ar
		reqPos := posOfSlots(v, req)
		reqH := f.HashesOf(req)
		need, _ := v.ProofPositions(reqPos)
		vr := f.ViewR(m.TotalRows)
		required, allowed := partialBands(vr, w.trackedList())
		var want []uint64
		for _, p := range need {
			ip, ok := model.Translate(p, v.R, vr.R)
			if !ok {
				return res.failf("harness error: cannot translate %d", p)
			}
			_, stored := m.Nodes.Get(ip)
			if required[ip] && !stored {
				return res.failf("partial forest does not store required position %d", p)
			}
			if !stored {
				want = append(want, p)
			}
			_ = allowed
		}
		ar.next()
		got := m.GetMissingPositions(ar.u64s(reqPos))
		if len(got) != 0 || len(want) != 0 {
			if !eqU64(got, want) {
				return res.failf("%s.GetMissingPositions(%v) (N=%d) = %v, the canonical proof positions it does not store are %v", w.insts[0].Cfg, reqPos, v.N, got, want)
			}
		}
		supply := hashesAt(v, got)
		if len(got) > 0 {
			res.class("map-missing:nonempty")
			short := cloneHashes(supply[:len(supply)-1])
			ar.next()
			if err := m.VerifyPartialProof(ar.u64s(reqPos), ar.hashes(reqH), ar.hashes(short), false); err == nil {
				return res.failf("%s.VerifyPartialProof(%v) succeeded although the hash at missing position %d was withheld", w.insts[0].Cfg, reqPos, got[len(got)-1])
			}
		} else {
			res.class("map-missing:empty")
		}
		if len(supply) > 0 {
			// a bad peer first: the right number of hashes, one of them wrong, with remember=true. It has to be
			// refused and must leave nothing behind: the forest still misses exactly the same positions
			bad := cloneHashes(supply)
			bad[len(bad)/2] = model.FreshHash(31337)
			ar.next()
			if err := m.VerifyPartialProof(ar.u64s(reqPos), ar.hashes(reqH), ar.hashes(bad), true); err == nil {
				res.count("wrong-partial-proof-accepted(C03)", 1)
			} else {
				ar.next()
				if again := m.GetMissingPositions(ar.u64s(reqPos)); !eqU64(again, got) {
					return res.failf("%s: after a REFUSED VerifyPartialProof(remember=true) GetMissingPositions(%v) = %v, before it was %v: the rejected hashes were kept", w.insts[0].Cfg, reqPos, again, got)
				}
				if err := w.check(); err != nil {
					return res.failf("after a REFUSED VerifyPartialProof(remember=true): %v", err)
				}
				res.count("refused-partial-proof", 1)
			}
		}
		ar.next()
		if err := m.VerifyPartialProof(ar.u64s(reqPos), ar.hashes(reqH), ar.hashes(supply), false); err != nil {
			return res.failf("%s.VerifyPartialProof(%v) (N=%d) with the true hashes at exactly the missing positions %v failed: %v", w.insts[0].Cfg, reqPos, v.N, got, err)
		}
		if err := w.check(); err != nil {
			return res.failf("after VerifyPartialProof(remember=false): %v", err)
		}
		ar.next()
		if err := m.VerifyPartialProof(ar.u64s(reqPos), ar.hashes(reqH), ar.hashes(supply), true); err != nil {
			return res.failf("%s.VerifyPartialProof(%v, remember) with the true hashes at the missing positions failed: %v", w.insts[0].Cfg, reqPos, err)
		}
		for _, s := range req {
			w.tracked[s] = true
		}
		if err := w.check(); err != nil {
			return res.failf("after VerifyPartialProof(remember=true) of slots %v: %v", req, err)
		}
		ar.next()
		if g := m.GetMissingPositions(ar.u64s(reqPos)); len(g) != 0 {
			return res.failf("%s.GetMissingPositions(%v) = %v right after the same targets were verified with remember", w.insts[0].Cfg, reqPos, g)
		}
	}

	overlap := false
	sa := map[int]bool{}
	for _, s := range c.A {
		sa[s] = true
	}
	for _, s := range c.B {
		if sa[s] {
			overlap = true
		}
	}
	res.NonTrivial = (overlap || sharedParent) && unsorted
	_ = fmt.Sprint
	return res
}

func TestC14(t *testing.T) {
	runSpec(t, Spec[C14Case]{ID: "C14", Gen: genC14, Run: runC14, Pre: preScaleC14})
}

package props

// Hostile-input machinery shared by C03 (soundness) and C04 (totality): a self-contained
// description of a (targets, hashes, proof) tuple whose hashes are *references* resolved
// against the reference model of the case's state, and structured mutators of honest proofs.

import (
	"encoding/hex"
	"fmt"
	"strconv"

	u "github.com/utreexo/utreexo"
	"pgregory.net/rapid"
	"verifharness/model"
)

// Tuple is a claim handed to a verifier. Hash references:
//
//	L<slot>  hash of the leaf inserted into that slot (live or dead)
//	N<pos>   true hash of the node at that position (external layout); zero hash if none
//	R<i>     root i of the state
//	M<slot>  hash of that leaf with its last byte flipped (shares the first 12 bytes, is not a node)
//	F<i>     fresh value number i (never a node)
//	Z        the all-zero hash
//	X<hex>   literal 32 bytes
type Tuple struct {
	Targets []uint64 `json:"targets"`
	Hashes  []string `json:"hashes"`
	Proof   []string `json:"proof"`
	Mut     []string `json:"mut,omitempty"`
}

func (tp Tuple) clone() Tuple {
	return Tuple{Targets: cloneU64(tp.Targets), Hashes: append([]string(nil), tp.Hashes...), Proof: append([]string(nil), tp.Proof...), Mut: append([]string(nil), tp.Mut...)}
}

func resolveRef(ref string, f *model.Forest, v *model.View) (Hash, error) {
	if ref == "" {
		return Hash{}, fmt.Errorf("empty hash reference")
	}
	arg := ref[1:]
	switch ref[0] {
	case 'Z':
		return Hash{}, nil
	case 'L':
		i, err := strconv.Atoi(arg)
		if err != nil || i < 0 {
			return Hash{}, fmt.Errorf("bad ref %q", ref)
		}
		if f != nil && i < len(f.Hashes) {
			return f.Hashes[i], nil
		}
		return model.LeafHash(i), nil
	case 'M': // the leaf's hash with its last byte flipped: same first 12 bytes (the pointer forest's map key), not a node
		i, err := strconv.Atoi(arg)
		if err != nil || i < 0 {
			return Hash{}, fmt.Errorf("bad ref %q", ref)
		}
		h := model.LeafHash(i)
		if f != nil && i < len(f.Hashes) {
			h = f.Hashes[i]
		}
		h[31] ^= 0x5a
		return h, nil
	case 'N':
		p, err := strconv.ParseUint(arg, 10, 64)
		if err != nil {
			return Hash{}, fmt.Errorf("bad ref %q", ref)
		}
		return v.At[p], nil
	case 'R':
		i, err := strconv.Atoi(arg)
		if err != nil || i < 0 || i >= len(v.Roots) {
			return Hash{}, nil
		}
		return v.Roots[i], nil
	case 'F':
		i, err := strconv.Atoi(arg)
		if err != nil {
			return Hash{}, fmt.Errorf("bad ref %q", ref)
		}
		return model.FreshHash(i), nil
	case 'X':
		b, err := hex.DecodeString(arg)
		if err != nil || len(b) != 32 {
			return Hash{}, fmt.Errorf("bad ref %q", ref)
		}
		var h Hash
		copy(h[:], b)
		return h, nil
	}
	return Hash{}, fmt.Errorf("bad ref %q", ref)
}

func resolveAll(refs []string, f *model.Forest, v *model.View) ([]Hash, error) {
	out := make([]Hash, len(refs))
	for i, r := range refs {
		h, err := resolveRef(r, f, v)
		if err != nil {
			return nil, err
		}
		out[i] = h
	}
	return out, nil
}

// honestTuple is the canonical proof of the given live slots (request order).
func honestTuple(f *model.Forest, v *model.View, slots []int) Tuple {
	var tp Tuple
	for _, s := range slots {
		tp.Targets = append(tp.Targets, v.SlotPos[s])
		tp.Hashes = append(tp.Hashes, fmt.Sprintf("L%d", s))
	}
	need, _ := v.ProofPositions(tp.Targets)
	for _, p := range need {
		tp.Proof = append(tp.Proof, fmt.Sprintf("N%d", p))
	}
	return tp
}

// isHonest reports whether the tuple is exactly an honest claim about distinct live leaves with
// the canonical proof (in any target order).
func isHonest(tp Tuple, f *model.Forest, v *model.View) bool {
	if len(tp.Targets) != len(tp.Hashes) {
		return false
	}
	seen := map[uint64]bool{}
	for i, t := range tp.Targets {
		n := v.NodeAt[t]
		if n == nil || !n.IsLeaf() || seen[t] {
			return false
		}
		seen[t] = true
		h, err := resolveRef(tp.Hashes[i], f, v)
		if err != nil || h != n.Hash {
			return false
		}
	}
	need, _ := v.ProofPositions(tp.Targets)
	if len(need) != len(tp.Proof) {
		return false
	}
	for i, p := range need {
		h, err := resolveRef(tp.Proof[i], f, v)
		if err != nil || h != v.At[p] {
			return false
		}
	}
	return true
}

var hostileConsts = []uint64{0, 1, 2, 3, 7, 8, 15, 16, 31, 32, 63, 64, 255, 256, 1<<16 - 1, 1 << 16, 1<<31 - 1, 1 << 31, 1<<32 - 1, 1 << 32, 1<<62 - 1, 1 << 62,
	1<<63 - 1, 1 << 63, 1<<63 + 1, ^uint64(0) - 1, ^uint64(0)}

// hostileRows lists the row counts of layouts other than the external one in which hostile
// positions are also expressed (a map forest reads a target as a position of its own TotalRows
// layout). Set by the case generators from the drawn configurations before tuples are drawn.
var hostileRows = []int{63}

// genLayoutPos draws a position of the R-row layout: any row, offsets at and around the width
// that the row has in the external layout (where aliasing between layouts would happen).
func genLayoutPos(t *rapid.T, v *model.View, label string) uint64 {
	R := uint8(rapid.SampledFrom(hostileRows).Draw(t, label+"-R"))
	if R < v.R {
		R = v.R
	}
	row := uint8(rapid.IntRange(0, int(R)).Draw(t, label+"-row"))
	if rapid.Bool().Draw(t, label+"-lowrow") && v.R > 0 {
		row = uint8(rapid.IntRange(0, int(v.R)).Draw(t, label+"-row2"))
	}
	width := model.RowLen(row, R)
	ext := uint64(0) // width of that row in the external layout
	if row <= v.R {
		ext = model.RowLen(row, v.R)
	}
	cands := []uint64{0, 1, ext, ext + 1, 2*ext - 1, 2 * ext, 3 * ext, width - 1}
	if ext > 0 {
		cands = append(cands, ext-1)
	}
	off := rapid.SampledFrom(cands).Draw(t, label+"-off")
	if rapid.IntRange(0, 3).Draw(t, label+"-rnd") == 0 && width > 1 {
		hi := 4*ext + 4
		if hi > width-1 {
			hi = width - 1
		}
		off = rapid.Uint64Range(0, hi).Draw(t, label+"-offr")
	}
	if width > 0 && off >= width {
		off = width - 1
	}
	return model.Pos(row, off, R)
}

// genHostilePos draws a position: inside the layout, just outside it, or a hostile constant.
func genHostilePos(t *rapid.T, v *model.View, inRangeOnly bool, label string) uint64 {
	maxPos := v.MaxPos()
	if inRangeOnly {
		return rapid.Uint64Range(0, maxPos).Draw(t, label)
	}
	switch rapid.IntRange(0, 6).Draw(t, label+"-kind") {
	case 6:
		return genLayoutPos(t, v, label+"-lay")
	case 0, 1:
		return rapid.Uint64Range(0, maxPos).Draw(t, label)
	case 2:
		return maxPos + uint64(rapid.IntRange(1, 3).Draw(t, label+"-past"))
	case 3:
		return rapid.SampledFrom(hostileConsts).Draw(t, label+"-const")
	case 4:
		k := uint(rapid.IntRange(0, 63).Draw(t, label+"-k"))
		return (uint64(1) << k) - uint64(rapid.IntRange(0, 1).Draw(t, label+"-m1"))
	default:
		return rapid.Uint64().Draw(t, label+"-any")
	}
}

// genHashRef draws a hash reference from the alphabet {true node hashes, roots, leaves, fresh, zero}.
func genHashRef(t *rapid.T, f *model.Forest, v *model.View, allowZero bool, label string) string {
	k := rapid.IntRange(0, 5).Draw(t, label+"-kind")
	switch {
	case k <= 1 && len(v.At) > 0:
		ps := sortedPositions(v)
		return fmt.Sprintf("N%d", rapid.SampledFrom(ps).Draw(t, label+"-pos"))
	case k == 2 && len(f.Hashes) > 0:
		return fmt.Sprintf("L%d", rapid.IntRange(0, len(f.Hashes)-1).Draw(t, label+"-slot"))
	case k == 3 && len(v.Roots) > 0:
		return fmt.Sprintf("R%d", rapid.IntRange(0, len(v.Roots)-1).Draw(t, label+"-root"))
	case k == 4 && allowZero:
		return "Z"
	}
	return fmt.Sprintf("F%d", rapid.IntRange(0, 3).Draw(t, label+"-fresh"))
}

func sortedPositions(v *model.View) []uint64 {
	ps := make([]uint64, 0, len(v.At))
	for p := range v.At {
		ps = append(ps, p)
	}
	sortU64(ps)
	return ps
}

func sortU64(x []uint64) {
	for i := 1; i < len(x); i++ {
		for j := i; j > 0 && x[j-1] > x[j]; j-- {
			x[j-1], x[j] = x[j], x[j-1]
		}
	}
}

// mutate applies one structured mutation to the tuple.
// forceMut: when set, the next mutate call uses this kind instead of the drawn one (and clears it).
var forceMut string

func mutate(t *rapid.T, tp Tuple, f *model.Forest, v *model.View, inRangeOnly, allowLenMismatch bool) Tuple {
	kinds := []string{"dup", "retarget", "swaphash", "rehash", "pdrop", "pinsert", "pswap", "preplace", "protate", "nested", "addtarget"}
	if !inRangeOnly {
		kinds = append(kinds, "alias")
	}
	if allowLenMismatch {
		kinds = append(kinds, "lenmismatch")
	}
	kind := rapid.SampledFrom(kinds).Draw(t, "mut")
	if forceMut != "" {
		kind, forceMut = forceMut, ""
	}
	nt := len(tp.Targets)
	if len(tp.Hashes) < nt { // after a length-mismatch mutation only the common prefix is addressed
		nt = len(tp.Hashes)
	}
	pick := func(n int, label string) int { return rapid.IntRange(0, n-1).Draw(t, label) }
	relatedRef := func(pos uint64, label string) string {
		// hash of the node itself / its sibling / its parent / something else
		switch rapid.IntRange(0, 5).Draw(t, label) {
		case 5:
			if n := v.NodeAt[pos]; n != nil && n.IsLeaf() {
				return fmt.Sprintf("M%d", n.Slot)
			}
			return fmt.Sprintf("N%d", pos)
		case 0:
			return fmt.Sprintf("N%d", pos)
		case 1:
			return fmt.Sprintf("N%d", pos^1)
		case 2:
			if n := v.NodeAt[pos]; n != nil && n.Up != nil {
				return fmt.Sprintf("N%d", n.Up.Pos)
			}
		}
		return genHashRef(t, f, v, !inRangeOnly, label+"-h")
	}
	switch kind {
	case "dup":
		if nt == 0 {
			break
		}
		i := pick(nt, "i")
		j := rapid.IntRange(0, nt).Draw(t, "at")
		h := tp.Hashes[i]
		if rapid.Bool().Draw(t, "otherhash") {
			h = relatedRef(tp.Targets[i], "duph")
		}
		tp.Targets = append(tp.Targets[:j:j], append([]uint64{tp.Targets[i]}, tp.Targets[j:]...)...)
		tp.Hashes = append(tp.Hashes[:j:j], append([]string{h}, tp.Hashes[j:]...)...)
	case "retarget":
		if nt == 0 {
			break
		}
		i := pick(nt, "i")
		old := tp.Targets[i]
		switch rapid.IntRange(0, 5).Draw(t, "how") {
		case 0:
			tp.Targets[i] = old ^ 1
		case 1:
			if n := v.NodeAt[old]; n != nil && n.Up != nil {
				tp.Targets[i] = n.Up.Pos
			} else {
				tp.Targets[i] = old + 1
			}
		case 2: // same row, other tree / other offset
			if r, _, ok := model.RowOff(old, v.R); ok {
				tp.Targets[i] = model.Pos(r, rapid.Uint64Range(0, model.RowLen(r, v.R)-1).Draw(t, "off"), v.R)
			}
		case 3:
			tp.Targets[i] = old + 1
		case 4:
			if old > 0 {
				tp.Targets[i] = old - 1
			}
		default:
			tp.Targets[i] = genHostilePos(t, v, inRangeOnly, "pos")
		}
	case "alias":
		// re-express a target in another layout at a LOWER row with an offset past that row's
		// external width: a verifier that converts layouts by (row, offset) arithmetic without a
		// range check folds it back onto the same node. The claim is false: nothing is there.
		if nt == 0 {
			break
		}
		i := pick(nt, "i")
		R := uint8(rapid.SampledFrom(hostileRows).Draw(t, "aliasR"))
		if R <= v.R {
			R = 63
		}
		if r, _, ok := model.RowOff(tp.Targets[i], v.R); ok && r > 0 {
			low := uint8(rapid.IntRange(0, int(r)-1).Draw(t, "aliasrow"))
			off := tp.Targets[i] - model.RowStart(low, v.R)
			if off < model.RowLen(low, R) {
				tp.Targets[i] = model.Pos(low, off, R)
			}
		}
	case "swaphash":
		if nt >= 2 {
			i, j := pick(nt, "i"), pick(nt, "j")
			tp.Hashes[i], tp.Hashes[j] = tp.Hashes[j], tp.Hashes[i]
		}
	case "rehash":
		if nt > 0 {
			i := pick(nt, "i")
			tp.Hashes[i] = relatedRef(tp.Targets[i], "rh")
		}
	case "pdrop":
		if len(tp.Proof) > 0 {
			i := pick(len(tp.Proof), "i")
			tp.Proof = append(tp.Proof[:i:i], tp.Proof[i+1:]...)
		}
	case "pinsert":
		i := rapid.IntRange(0, len(tp.Proof)).Draw(t, "i")
		h := genHashRef(t, f, v, !inRangeOnly, "ph")
		if len(tp.Proof) > 0 && rapid.Bool().Draw(t, "dupexisting") {
			h = tp.Proof[pick(len(tp.Proof), "src")]
		}
		tp.Proof = append(tp.Proof[:i:i], append([]string{h}, tp.Proof[i:]...)...)
	case "pswap":
		if len(tp.Proof) >= 2 {
			i, j := pick(len(tp.Proof), "i"), pick(len(tp.Proof), "j")
			tp.Proof[i], tp.Proof[j] = tp.Proof[j], tp.Proof[i]
		}
	case "preplace":
		if len(tp.Proof) > 0 {
			tp.Proof[pick(len(tp.Proof), "i")] = genHashRef(t, f, v, !inRangeOnly, "ph")
		}
	case "protate":
		if len(tp.Proof) >= 2 {
			k := rapid.IntRange(1, len(tp.Proof)-1).Draw(t, "k")
			tp.Proof = append(append([]string(nil), tp.Proof[k:]...), tp.Proof[:k]...)
		}
	case "nested":
		// add an ancestor of a target as a further target, with its true or a related hash
		if nt > 0 {
			i := pick(nt, "i")
			if n := v.NodeAt[tp.Targets[i]]; n != nil && n.Up != nil {
				a := n.Up
				for a.Up != nil && rapid.Bool().Draw(t, "higher") {
					a = a.Up
				}
				tp.Targets = append(tp.Targets, a.Pos)
				tp.Hashes = append(tp.Hashes, relatedRef(a.Pos, "nh"))
			}
		}
	case "addtarget":
		p := genHostilePos(t, v, inRangeOnly, "newt")
		tp.Targets = append(tp.Targets, p)
		tp.Hashes = append(tp.Hashes, relatedRef(p, "nth"))
	case "lenmismatch":
		switch rapid.IntRange(0, 3).Draw(t, "which") {
		case 0:
			if len(tp.Hashes) > 0 {
				tp.Hashes = tp.Hashes[:len(tp.Hashes)-1]
			}
		case 1:
			tp.Hashes = append(tp.Hashes, genHashRef(t, f, v, true, "xh"))
		case 2:
			if len(tp.Targets) > 0 {
				tp.Targets = tp.Targets[:len(tp.Targets)-1]
			}
		default:
			tp.Targets = append(tp.Targets, genHostilePos(t, v, inRangeOnly, "xt"))
		}
	}
	tp.Mut = append(tp.Mut, kind)
	return tp
}

// genFreeTuple draws a tuple that is not derived from an honest proof at all.
func genFreeTuple(t *rapid.T, f *model.Forest, v *model.View, inRangeOnly, allowLenMismatch bool) Tuple {
	var tp Tuple
	nt := rapid.IntRange(0, 5).Draw(t, "nt")
	for i := 0; i < nt; i++ {
		if i > 0 && rapid.IntRange(0, 3).Draw(t, "dupprev") == 0 {
			tp.Targets = append(tp.Targets, tp.Targets[rapid.IntRange(0, i-1).Draw(t, "src")])
		} else {
			tp.Targets = append(tp.Targets, genHostilePos(t, v, inRangeOnly, "t"))
		}
	}
	nh := nt
	if allowLenMismatch && rapid.IntRange(0, 4).Draw(t, "mism") == 0 {
		nh = rapid.IntRange(0, 6).Draw(t, "nh")
	}
	for i := 0; i < nh; i++ {
		tp.Hashes = append(tp.Hashes, genHashRef(t, f, v, !inRangeOnly, "h"))
	}
	np := rapid.IntRange(0, 8).Draw(t, "np")
	for i := 0; i < np; i++ {
		tp.Proof = append(tp.Proof, genHashRef(t, f, v, !inRangeOnly, "p"))
	}
	tp.Mut = []string{"free"}
	return tp
}

// genLayoutMixTuple draws a TRUE claim about 1-3 existing nodes (leaves or inner nodes, none an
// ancestor of another) with its canonical proof, and then writes each target in one of three ways:
// as it is (external layout), as the same (row, offset) of another layout R' (a legitimate
// coordinate for a map forest with TotalRows R'), or ALIASED: at a lower row of R' with the offset
// that plain start-of-row arithmetic folds back onto the node. At least one target is aliased, so
// the claim is false (nothing sits there), yet every hash and proof hash is the one a verifier
// that converts layouts without range checks would need - also when a valid target masks it.
func genLayoutMixTuple(t *rapid.T, f *model.Forest, v *model.View) (Tuple, bool) {
	ps := sortedPositions(v)
	if len(ps) == 0 {
		return Tuple{}, false
	}
	want := rapid.IntRange(1, 3).Draw(t, "mix-n")
	var chosen []uint64
	for tries := 0; tries < 8 && len(chosen) < want; tries++ {
		p := rapid.SampledFrom(ps).Draw(t, "mix-node")
		ok := true
		for _, q := range chosen {
			for a := v.NodeAt[p]; a != nil; a = a.Up {
				if a.Pos == q {
					ok = false
				}
			}
			for a := v.NodeAt[q]; a != nil; a = a.Up {
				if a.Pos == p {
					ok = false
				}
			}
		}
		if ok {
			chosen = append(chosen, p)
		}
	}
	var tp Tuple
	for _, p := range chosen {
		tp.Targets = append(tp.Targets, p)
		tp.Hashes = append(tp.Hashes, fmt.Sprintf("N%d", p))
	}
	need, _ := v.ProofPositions(tp.Targets)
	for _, p := range need {
		tp.Proof = append(tp.Proof, fmt.Sprintf("N%d", p))
	}
	R := uint8(rapid.SampledFrom(hostileRows).Draw(t, "mix-R"))
	if R <= v.R {
		R = 63
	}
	aliased := false
	for i, p := range tp.Targets {
		r, off, ok := model.RowOff(p, v.R)
		if !ok {
			continue
		}
		mode := rapid.IntRange(0, 2).Draw(t, "mix-repr")
		if i == len(tp.Targets)-1 && !aliased {
			mode = 2
		}
		switch {
		case mode == 1:
			tp.Targets[i] = model.Pos(r, off, R)
		case mode == 2 && r > 0:
			low := uint8(rapid.IntRange(0, int(r)-1).Draw(t, "mix-low"))
			o := p - model.RowStart(low, v.R)
			if o < model.RowLen(low, R) && (low > 0 || R == 63 || true) {
				tp.Targets[i] = model.Pos(low, o, R)
				aliased = true
			}
		}
	}
	tp.Mut = []string{"layoutmix"}
	return tp, aliased
}

// genHostileTuple draws either a mutated honest proof or a free tuple.
func genHostileTuple(t *rapid.T, f *model.Forest, v *model.View, inRangeOnly, allowLenMismatch bool) Tuple {
	if !inRangeOnly && rapid.IntRange(0, 5).Draw(t, "layoutmix") == 0 {
		if tp, ok := genLayoutMixTuple(t, f, v); ok {
			if rapid.Bool().Draw(t, "mix-then-mutate") {
				tp = mutate(t, tp, f, v, inRangeOnly, allowLenMismatch)
			}
			return tp
		}
	}
	live := f.Live()
	if len(live) == 0 || rapid.IntRange(0, 4).Draw(t, "free") == 0 {
		return genFreeTuple(t, f, v, inRangeOnly, allowLenMismatch)
	}
	var req []int
	if len(live) >= 150 && rapid.Bool().Draw(t, "wide-claim") {
		req = subsetP(t, live, 1, 3, "wide") // a claim about dozens to hundreds of leaves
	}
	if len(req) == 0 {
		req = genRequest(t, f)
	}
	tp := honestTuple(f, v, req)
	if len(tp.Targets) >= 32 && rapid.Bool().Draw(t, "big-claim-dup") {
		// claims with dozens of targets are rare (big cases only): make sure a repeated position - the
		// mutation whose handling depends on the number of targets - is tried on half of them
		forceMut = "dup"
	}
	n := rapid.IntRange(1, 3).Draw(t, "nmut")
	for i := 0; i < n; i++ {
		tp = mutate(t, tp, f, v, inRangeOnly, allowLenMismatch)
	}
	return tp
}

func tupleToArgs(tp Tuple, f *model.Forest, v *model.View) ([]Hash, u.Proof, error) {
	hs, err := resolveAll(tp.Hashes, f, v)
	if err != nil {
		return nil, u.Proof{}, err
	}
	ph, err := resolveAll(tp.Proof, f, v)
	if err != nil {
		return nil, u.Proof{}, err
	}
	return hs, u.Proof{Targets: cloneU64(tp.Targets), Proof: ph}, nil
}

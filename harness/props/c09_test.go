package props

// C09 - a partial forest stores only true, needed hashes and can always prove its cache.

import (
	"bytes"
	"fmt"
	"sort"
	"testing"

	u "github.com/utreexo/utreexo"
	"pgregory.net/rapid"
	"verifharness/model"
)

type C09Step struct {
	Op  string `json:"op"` // block | verify | ingest | vpp | prune | undo | restart | badverify | badmodify
	B   *Block `json:"b,omitempty"`
	Set []int  `json:"set,omitempty"`
	// Stale (prune only): slots whose hashes the forest does not cache (spent leaves, live leaves it never
	// remembered), mixed into the Prune list after its first entry and at its end
	Stale []int `json:"stale,omitempty"`
}

type C09Case struct {
	Rows   int       `json:"rows"`             // TotalRows of a fresh forest (ignored when Prefix is set: NewMapPollardFromRoots uses 63)
	Prefix []Block   `json:"prefix,omitempty"` // history applied to the model only; the forest then starts from its bare roots
	Steps  []C09Step `json:"steps"`
	Ext    bool      `json:"ext,omitempty"` // the forest runs on caller-supplied stores (see Cfg.Ext)
	// PreUndo: the undo records of the Prefix blocks are available too, so that "undo" steps can take the
	// forest back BELOW the state it was started from (a node bootstrapped from a roots snapshot that sees
	// a reorganisation reaching behind the snapshot)
	PreUndo bool `json:"preundo,omitempty"`
}

func genC09(t *rapid.T) C09Case {
	lim := genLimits(t)
	c := C09Case{Rows: rapid.SampledFrom([]int{0, 0, 1, 2, 3, 4, 5, 7, 63, 63}).Draw(t, "rows")}
	c.Ext = rapid.IntRange(0, 3).Draw(t, "ext") == 0
	f := &model.Forest{}
	if rapid.IntRange(0, 2).Draw(t, "fromroots") == 0 {
		n := rapid.IntRange(1, 6).Draw(t, "nprefix")
		c.Prefix = make([]Block, n)
		c.PreUndo = rapid.IntRange(0, 2).Draw(t, "preundo") == 0
	}
	type frame struct {
		f       *model.Forest
		tracked map[int]bool
		del     []int
	}
	tracked := map[int]bool{}
	var stack []frame
	for i := 0; i < len(c.Prefix); i++ {
		before := f.Clone()
		b := genBlock(t, f, lim, false)
		c.Prefix[i] = b
		if c.PreUndo {
			stack = append(stack, frame{f: before, tracked: map[int]bool{}, del: b.Del})
		}
	}
	copyT := func() map[int]bool {
		m := map[int]bool{}
		for k := range tracked {
			m[k] = true
		}
		return m
	}
	trackedList := func() []int {
		var l []int
		for s := range tracked {
			l = append(l, s)
		}
		sort.Ints(l)
		return l
	}
	n := rapid.IntRange(2, lim.maxBlocks+6).Draw(t, "nsteps")
	branch := 0
	for i := 0; i < n; i++ {
		op := rapid.SampledFrom([]string{"block", "block", "block", "verify", "ingest", "vpp", "prune", "undo"}).Draw(t, "op")
		if rapid.IntRange(0, 9).Draw(t, "restart") == 0 {
			// the process is shut down and started again: the forest is written out and replaced by what its own
			// bytes restore to; everything that follows - prune, undo, remember calls, blocks - meets a restored forest
			c.Steps = append(c.Steps, C09Step{Op: "restart"})
		}
		live := f.Live()
		switch {
		case (op == "verify" || op == "ingest" || op == "vpp") && len(live) == 0:
			op = "block"
		case op == "prune" && len(tracked) == 0:
			op = "block"
		case op == "undo" && len(stack) == 0:
			op = "block"
		}
		switch op {
		case "block":
			stack = append(stack, frame{f: f.Clone()})
			b := genBlockSalt(t, f, lim, true, branch)
			for _, s := range b.Del {
				tracked[s] = true // verified with remember before the block
			}
			stack[len(stack)-1].tracked = copyT()
			stack[len(stack)-1].del = b.Del
			for _, s := range b.Del {
				delete(tracked, s)
			}
			for _, r := range b.Rem {
				tracked[len(f.Hashes)-b.Add+r] = true
			}
			bb := b
			c.Steps = append(c.Steps, C09Step{Op: "block", B: &bb})
		case "verify", "ingest", "vpp":
			switch rapid.IntRange(0, 11).Draw(t, "odd-call") {
			case 0: // empty arguments: legal, must change nothing
				c.Steps = append(c.Steps, C09Step{Op: op})
				continue
			case 1: // a proof with a wrong hash: refused or not, nothing false may be stored afterwards
				c.Steps = append(c.Steps, C09Step{Op: "badverify", Set: genRequest(t, f)})
				continue
			case 2: // a block the forest must refuse: some remembered leaves followed by a leaf it does not remember
				tl := trackedList()
				var other []int
				for _, s := range f.Live() {
					if !tracked[s] {
						other = append(other, s)
					}
				}
				if len(tl) > 0 && len(other) > 0 {
					k := rapid.IntRange(1, min(3, len(tl))).Draw(t, "nbad")
					set := append(rapid.Permutation(tl).Draw(t, "badperm")[:k:k], rapid.SampledFrom(other).Draw(t, "unknown"))
					c.Steps = append(c.Steps, C09Step{Op: "badmodify", Set: set})
					continue
				}
			}
			set := genRequest(t, f)
			for _, s := range set {
				tracked[s] = true
			}
			c.Steps = append(c.Steps, C09Step{Op: op, Set: set})
		case "prune":
			set := subsetP(t, trackedList(), 1, 2, "prune")
			if len(set) == 0 {
				set = trackedList()[:1]
			}
			set = permute(t, set, "pruneperm")
			for _, s := range set {
				delete(tracked, s)
			}
			var stale []int
			if rapid.IntRange(0, 2).Draw(t, "stale-prune") == 0 {
				var cand []int
				for s := range f.Hashes {
					if !tracked[s] && !inSet(set, s) {
						cand = append(cand, s)
					}
				}
				if len(cand) > 0 {
					k := rapid.IntRange(1, min(2, len(cand))).Draw(t, "nstale")
					stale = rapid.Permutation(cand).Draw(t, "staleperm")[:k:k]
				}
			}
			c.Steps = append(c.Steps, C09Step{Op: "prune", Set: set, Stale: stale})
		case "undo":
			top := stack[len(stack)-1]
			stack = stack[:len(stack)-1]
			f = top.f
			// tracked after undo: current minus the block's adds plus its deletions (which were tracked before the block)
			nBefore := len(f.Hashes)
			for s := range tracked {
				if s >= nBefore {
					delete(tracked, s)
				}
			}
			for _, s := range top.del {
				tracked[s] = true
			}
			branch++
			c.Steps = append(c.Steps, C09Step{Op: "undo"})
		}
	}
	return c
}

type c09Frame struct {
	before *model.Forest
	b      Block
	delH   []Hash
	proof  u.Proof
	roots  []Hash
	pre    bool // a block of the prefix: applied before the forest was started from the bare roots
}

func runC09(c C09Case) *Result {
	res := &Result{}
	f := &model.Forest{}
	var in *Inst
	var stack []c09Frame
	if len(c.Prefix) > 0 {
		for _, b := range c.Prefix {
			for _, s := range b.Del {
				if s < 0 || s >= len(f.Dead) || f.Dead[s] {
					return res.failf("case error: prefix deletes a slot that is not live")
				}
			}
			if c.PreUndo {
				v := f.View()
				delH := f.HashesOf(b.Del)
				stack = append(stack, c09Frame{before: f.Clone(), b: b, delH: delH, proof: v.Proof(delH), roots: cloneHashes(v.Roots), pre: true})
			}
			applyToModel(f, b)
		}
		if c.PreUndo {
			res.class("start:from-roots-with-earlier-undo-records")
		}
		v := f.View()
		m := u.NewMapPollardFromRoots(cloneHashes(v.Roots), v.N, false)
		if c.Ext {
			extStores(&m)
		}
		in = &Inst{Cfg: Cfg{Kind: "map", Rows: 63, Ext: c.Ext}, M: &m}
		res.class("start:from-roots")
	} else {
		in = newInst(Cfg{Kind: "map", Rows: c.Rows, Ext: c.Ext})
		res.class(fmt.Sprintf("start:fresh-rows=%d", c.Rows))
	}
	tracked := map[int]bool{}
	trackedList := func() []int {
		var l []int
		for s := range tracked {
			l = append(l, s)
		}
		sort.Ints(l)
		return l
	}
	check := func(when string) error {
		if err := checkPartialForest(in, f, trackedList(), true); err != nil {
			return fmt.Errorf("%s: %v", when, err)
		}
		return nil
	}
	if err := check("initially"); err != nil {
		return res.failf("%v", err)
	}
	sawDelBlock, special := false, false
	for i, st := range c.Steps {
		switch st.Op {
		case "block":
			if st.B == nil {
				return res.failf("case error: block step without block")
			}
			b := *st.B
			for _, s := range b.Del {
				if s < 0 || s >= len(f.Dead) || f.Dead[s] {
					return res.failf("case error: step %d deletes slot %d which is not live", i, s)
				}
			}
			v := f.View()
			delH := f.HashesOf(b.Del)
			proof := v.Proof(delH)
			if len(delH) > 0 {
				if err := in.M.Verify(cloneHashes(delH), cloneProof(proof), true); err != nil {
					return res.failf("step %d: Verify(remember) of the block's honest proof failed: %v", i, err)
				}
				for _, s := range b.Del {
					tracked[s] = true
				}
				if err := check(fmt.Sprintf("step %d after Verify(remember) of slots %v", i, b.Del)); err != nil {
					return res.failf("%v", err)
				}
				sawDelBlock = true
			}
			adds, _ := mkLeavesSalt(b.Salt, len(f.Hashes), b.Add, func(k int) bool { return inSet(b.Rem, k) })
			stack = append(stack, c09Frame{before: f.Clone(), b: b, delH: delH, proof: proof, roots: cloneHashes(v.Roots)})
			if err := in.M.Modify(adds, cloneHashes(delH), cloneProof(proof)); err != nil {
				return res.failf("step %d: Modify rejected a valid block whose deletions are cached: %v", i, err)
			}
			first := len(f.Hashes)
			applyToModel(f, b)
			for _, s := range b.Del {
				delete(tracked, s)
			}
			for _, r := range b.Rem {
				tracked[first+r] = true
			}
			if err := check(fmt.Sprintf("step %d after Modify {del %v, add %d, remember %v}", i, b.Del, b.Add, b.Rem)); err != nil {
				return res.failf("%v", err)
			}
		case "verify", "ingest", "vpp":
			for _, s := range st.Set {
				if s < 0 || s >= len(f.Dead) || f.Dead[s] {
					return res.failf("case error: step %d names slot %d which is not live", i, s)
				}
			}
			hs := f.HashesOf(st.Set)
			vw := f.View()
			proof := vw.Proof(hs)
			var err error
			if st.Op == "verify" {
				err = in.M.Verify(cloneHashes(hs), cloneProof(proof), true)
			} else if st.Op == "vpp" {
				err = vppRemember(in.M, &in.ar, vw, proof.Targets, hs)
			} else {
				err = in.M.Ingest(cloneHashes(hs), cloneProof(proof))
				special = special || sawDelBlock
			}
			if err != nil {
				return res.failf("step %d: %s of an honest proof for slots %v failed: %v", i, st.Op, st.Set, err)
			}
			for _, s := range st.Set {
				tracked[s] = true
			}
			if err := check(fmt.Sprintf("step %d after %s of slots %v", i, st.Op, st.Set)); err != nil {
				return res.failf("%v", err)
			}
		case "badmodify":
			// Modify of remembered leaves followed by one live leaf the forest does not remember: it has to be
			// refused, and the refusal must leave the remembered ones remembered and provable
			for _, s := range st.Set {
				if s < 0 || s >= len(f.Dead) || f.Dead[s] {
					return res.failf("case error: step %d names slot %d which is not live", i, s)
				}
			}
			if n := len(st.Set); n < 2 || tracked[st.Set[n-1]] {
				return res.failf("case error: badmodify needs remembered slots followed by one that is not remembered")
			}
			{
				hs := f.HashesOf(st.Set)
				proof := f.View().Proof(hs)
				if err := in.M.Modify(nil, cloneHashes(hs), cloneProof(proof)); err == nil {
					return res.failf("step %d: Modify spending slot %d, which the partial forest was never asked to remember, was accepted", i, st.Set[len(st.Set)-1])
				}
				res.count("refused-modify", 1)
			}
			if err := check(fmt.Sprintf("step %d after a REFUSED Modify of remembered slots %v + unremembered slot %d", i, st.Set[:len(st.Set)-1], st.Set[len(st.Set)-1])); err != nil {
				return res.failf("%v", err)
			}
			special = special || sawDelBlock
		case "badverify":
			for _, s := range st.Set {
				if s < 0 || s >= len(f.Dead) || f.Dead[s] {
					return res.failf("case error: step %d names slot %d which is not live", i, s)
				}
			}
			hs := f.HashesOf(st.Set)
			proof := f.View().Proof(hs)
			if len(proof.Proof) > 0 {
				proof.Proof = cloneHashes(proof.Proof)
				proof.Proof[len(proof.Proof)/2] = model.FreshHash(4242)
			} else if len(hs) > 0 {
				hs = cloneHashes(hs)
				hs[0] = model.FreshHash(4243)
			}
			func() {
				defer func() { recover() }() // a panic on a wrong proof is C04's business
				if in.M.Verify(cloneHashes(hs), cloneProof(proof), true) == nil {
					res.count("wrong-proof-accepted(C03)", 1)
				}
			}()
			if err := check(fmt.Sprintf("step %d after a REFUSED Verify(remember) of slots %v with one wrong hash", i, st.Set)); err != nil {
				return res.failf("%v", err)
			}
			special = special || sawDelBlock
		case "prune":
			var hs []Hash
			for _, s := range st.Set {
				if s < 0 || s >= len(f.Hashes) {
					return res.failf("case error: prune of unknown slot")
				}
				hs = append(hs, f.Hashes[s])
			}
			for k, s := range st.Stale {
				if s < 0 || s >= len(f.Hashes) || tracked[s] || inSet(st.Set, s) {
					return res.failf("case error: stale prune entry %d", s)
				}
				// one right after the first entry, the others at the end
				if k == 0 && len(hs) > 0 {
					hs = append(hs[:1:1], append([]Hash{f.Hashes[s]}, hs[1:]...)...)
				} else {
					hs = append(hs, f.Hashes[s])
				}
			}
			if err := in.M.Prune(cloneHashes(hs)); err != nil {
				if len(st.Stale) == 0 {
					return res.failf("step %d: Prune(slots %v) failed: %v", i, st.Set, err)
				}
				// a list naming hashes the forest does not cache may be refused - then as a whole: nothing is forgotten
				res.class("prune-naming-uncached-hashes:refused")
			} else {
				for _, s := range st.Set {
					delete(tracked, s)
				}
				if len(st.Stale) > 0 {
					res.class("prune-naming-uncached-hashes:done")
				}
			}
			special = special || sawDelBlock
			if err := check(fmt.Sprintf("step %d after Prune of slots %v", i, st.Set)); err != nil {
				return res.failf("%v", err)
			}
		case "undo":
			if len(stack) == 0 {
				return res.failf("case error: undo with empty history")
			}
			fr := stack[len(stack)-1]
			stack = stack[:len(stack)-1]
			in.ar.next()
			if err := in.M.Undo(uint64(fr.b.Add), in.ar.proof(fr.proof), in.ar.hashes(fr.delH), in.ar.hashes(fr.roots)); err != nil {
				return res.failf("step %d: Undo of block {del %v, add %d} failed: %v", i, fr.b.Del, fr.b.Add, err)
			}
			f = fr.before
			nBefore := len(f.Hashes)
			for s := range tracked {
				if s >= nBefore {
					delete(tracked, s)
				}
			}
			for _, s := range fr.b.Del {
				tracked[s] = true
			}
			special = special || sawDelBlock
			if fr.pre {
				res.count("undos-reaching-behind-the-roots-snapshot", 1)
				// the leaves such an undo brings back were never shown to this forest before; the pinned
				// implementation remembers them (the undo record carries their proof), and the script was
				// generated on that reading. A forest that does not is not wrong by any statement: the rest of
				// such a case is not judged
				for _, s := range fr.b.Del {
					if _, ok := in.M.CachedLeaves.Get(f.Hashes[s]); !ok {
						res.class("undo-behind-snapshot:restored-leaves-not-remembered(rest of the case not judged)")
						return res
					}
				}
			}
			if err := check(fmt.Sprintf("step %d after Undo of block {del %v, add %d}", i, fr.b.Del, fr.b.Add)); err != nil {
				return res.failf("%v", err)
			}
		case "restart":
			var buf bytes.Buffer
			if _, err := serialize(in, &buf); err != nil {
				return res.failf("step %d: writing the forest failed: %v", i, err)
			}
			in2, _, err, perr := restore(in.Cfg, bytes.NewReader(buf.Bytes()))
			if perr != nil {
				err = perr
			}
			if err != nil {
				return res.failf("step %d: restoring the forest from its own %d bytes failed: %v", i, buf.Len(), err)
			}
			in = in2
			if err := check(fmt.Sprintf("step %d after the forest was written out and restored", i)); err != nil {
				return res.failf("%v", err)
			}
		default:
			return res.failf("case error: unknown op %q", st.Op)
		}
		res.count("op:"+st.Op, 1)
		res.count("invariant_evaluations", 1)
	}
	res.NonTrivial = special && len(tracked) > 0
	return res
}

func TestC09(t *testing.T) {
	runSpec(t, Spec[C09Case]{ID: "C09", Gen: genC09, Run: runC09, Pre: preScaleC09})
}

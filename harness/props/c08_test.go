package props

// C08 - undoing a cached proof yields a canonical proof for the previous state.

import (
	"fmt"
	"testing"

	u "github.com/utreexo/utreexo"
	"pgregory.net/rapid"
	"verifharness/model"
)

type C08Case struct {
	Steps []C06Step `json:"steps"` // block (with Rem) | undo
	// High > 0: a second light client follows the same forest embedded behind High opaque leaves
	High uint64 `json:"high,omitempty"`
}

func genC08(t *rapid.T) C08Case {
	lim := genLimits(t)
	var c C08Case
	type frame struct {
		f *model.Forest
		b Block
	}
	f := &model.Forest{}
	var stack []frame
	var undone []Block
	branch := 0
	n := rapid.IntRange(2, lim.maxBlocks+6).Draw(t, "nsteps")
	for i := 0; i < n; i++ {
		op := rapid.SampledFrom([]string{"block", "block", "block", "undo", "undo", "redo"}).Draw(t, "op")
		if op == "undo" && len(stack) == 0 {
			op = "block"
		}
		if op == "redo" && len(undone) == 0 {
			op = "block"
		}
		switch op {
		case "undo":
			k := 1
			if rapid.IntRange(0, 2).Draw(t, "deep") == 0 {
				k = rapid.IntRange(1, len(stack)).Draw(t, "depth")
			}
			for ; k > 0; k-- {
				top := stack[len(stack)-1]
				stack = stack[:len(stack)-1]
				f = top.f
				undone = append(undone, top.b)
				c.Steps = append(c.Steps, C06Step{Op: "undo"})
			}
			branch++
		case "redo":
			b := undone[len(undone)-1]
			undone = undone[:len(undone)-1]
			stack = append(stack, frame{f.Clone(), b})
			applyToModel(f, b)
			bb := b
			c.Steps = append(c.Steps, C06Step{Op: "block", B: &bb})
		default:
			prev := f.Clone()
			undone = nil
			b := genRememberBlock(t, f, lim, branch)
			stack = append(stack, frame{prev, b})
			bb := b
			c.Steps = append(c.Steps, C06Step{Op: "block", B: &bb})
		}
	}
	c.High = genHigh(t, lim.maxLeaves)
	return c
}

type c08Frame struct {
	before     *model.Forest
	prevStump  u.Stump
	b          Block
	delH       []Hash
	addH       []Hash
	proof      u.Proof
	ud         u.UpdateData
	leavesPost uint64
	shape      blockShape
	// embedded twin
	bigPrevStump u.Stump
	bigProof     u.Proof
	bigUD        u.UpdateData
}

// kfC08Destroy names the (now fixed) finding about undoing blocks with a non-empty ToDestroy. The
// exclusion below is only active while known_findings.json lists that id as open; it is not.
const kfC08Destroy = "KF-C08-2"

func runC08(c C08Case) *Result {
	res := &Result{}
	f := &model.Forest{}
	lc := &lightClient{}
	big := &lightClient{stump: u.Stump{Roots: highRoots(c.High), NumLeaves: c.High}}
	if c.High != 0 {
		res.class(fmt.Sprintf("embedded:rows=%d", model.Rows(c.High+1)))
	}
	var stack []c08Frame
	held := map[int]bool{} // slots the harness expects the client to hold (exact while no undo has dropped deleted leaves)
	depth := 0
	tainted := false // set once a known-finding shape was excluded: later expectations about the cache are unreliable
	for i, st := range c.Steps {
		switch st.Op {
		case "block":
			if st.B == nil {
				return res.failf("case error: block step without block")
			}
			b := *st.B
			for _, s := range b.Del {
				if s < 0 || s >= len(f.Dead) || f.Dead[s] {
					return res.failf("case error: step %d deletes slot %d which is not live", i, s)
				}
			}
			depth = 0
			v := f.View()
			delH := f.HashesOf(b.Del)
			proof := v.Proof(delH)
			first := len(f.Hashes)
			_, addH := mkLeavesSalt(b.Salt, first, b.Add, nil)
			fr := c08Frame{before: f.Clone(), prevStump: copyStump(lc.stump), b: b, delH: delH, addH: addH, proof: proof, shape: shapeOf(f, b)}
			ud, err := lc.stump.Update(cloneHashes(delH), cloneHashes(addH), cloneProof(proof))
			if err != nil {
				res.class("setup-failed")
				return res
			}
			r32 := make([]uint32, len(b.Rem))
			for k, r := range b.Rem {
				r32[k] = uint32(r)
			}
			lc.hashes, err = lc.proof.Update(lc.hashes, cloneHashes(addH), cloneU64(proof.Targets), r32, ud)
			if err != nil {
				return res.failf("step %d: Proof.Update failed: %v", i, err)
			}
			fr.ud = ud
			fr.leavesPost = lc.stump.NumLeaves
			if c.High != 0 {
				fr.bigPrevStump = copyStump(big.stump)
				fr.bigProof = u.Proof{Targets: embedAll(proof.Targets, v, c.High), Proof: cloneHashes(proof.Proof)}
				bud, err := big.stump.Update(cloneHashes(delH), cloneHashes(addH), cloneProof(fr.bigProof))
				if err != nil {
					res.class("setup-failed")
					return res
				}
				big.hashes, err = big.proof.Update(big.hashes, cloneHashes(addH), cloneU64(fr.bigProof.Targets), r32, bud)
				if err != nil {
					return res.failf("step %d: Proof.Update (embedded behind %d leaves) failed: %v", i, c.High, err)
				}
				fr.bigUD = bud
			}
			applyToModel(f, b)
			if c.High != 0 && !highOK(c.High, f.N()) {
				return res.failf("case error: %d leaves do not fit below the opaque trees of %d leaves", f.N(), c.High)
			}
			for _, s := range b.Del {
				delete(held, s)
			}
			for _, r := range b.Rem {
				held[first+r] = true
			}
			stack = append(stack, fr)
			if !tainted {
				if err := checkCachedProof(f, lc.stump, lc.hashes, lc.proof, held, true); err != nil {
					// updates are C07's business unless they follow an undo (redo on a branch)
					res.class("update-after-undo-or-C07")
					return res.failf("step %d: after Proof.Update {del %v, add %d, remember %v}: %v", i, b.Del, b.Add, b.Rem, err)
				}
			}
		case "undo":
			if len(stack) == 0 {
				return res.failf("case error: undo with empty history")
			}
			fr := stack[len(stack)-1]
			stack = stack[:len(stack)-1]
			depth++
			heldBefore := map[Hash]bool{}
			for _, h := range lc.hashes {
				heldBefore[h] = true
			}
			newH, err := lc.proof.Undo(uint64(fr.b.Add), fr.leavesPost, cloneU64(fr.proof.Targets), cloneHashes(fr.delH), cloneHashes(lc.hashes),
				cloneU64(fr.ud.ToDestroy), cloneProof(fr.proof))
			where := fmt.Sprintf("step %d: Proof.Undo (depth %d) of block {del %v, add %d, remember %v, ToDestroy %v} back to %d leaves", i, depth, fr.b.Del, fr.b.Add, fr.b.Rem, fr.ud.ToDestroy, len(fr.before.Hashes))
			if len(fr.ud.ToDestroy) > 0 && kfOpen(kfC08Destroy) {
				// known finding: exclude this shape by construction, keep the sequence going from a re-synchronised client
				res.known(kfC08Destroy)
				res.count("undos_excluded_known", 1)
				tainted = true
			}
			if err != nil {
				if tainted {
					return res
				}
				return res.failf("%s failed: %v", where, err)
			}
			lc.hashes = newH
			lc.stump = fr.prevStump
			f = fr.before
			if tainted {
				// after an excluded shape the cache content is unknown: stop asserting, just finish
				return res
			}
			added := map[Hash]bool{}
			for _, a := range fr.addH {
				added[a] = true
			}
			deleted := map[Hash]bool{}
			for _, d := range fr.delH {
				deleted[d] = true
			}
			got := map[Hash]bool{}
			for _, h := range lc.hashes {
				if added[h] {
					return res.failf("%s keeps leaf %s which the undone block added", where, shortH(h))
				}
				if !heldBefore[h] && !deleted[h] {
					return res.failf("%s invents leaf %s (not held before, not deleted by the block)", where, shortH(h))
				}
				got[h] = true
			}
			for h := range heldBefore {
				if !added[h] && !got[h] {
					return res.failf("%s loses leaf %s which is live both before and after the block (held positions now %v)", where, shortH(h), lc.proof.Targets)
				}
			}
			// expected slots now: what is held (checked above to be legal) -> exact canonical check
			expect := map[int]bool{}
			for s, h := range f.Hashes {
				if got[h] && !f.Dead[s] {
					expect[s] = true
				}
			}
			if err := checkCachedProof(f, lc.stump, lc.hashes, lc.proof, expect, true); err != nil {
				return res.failf("%s: %v", where, err)
			}
			held = expect
			if c.High != 0 && !tainted {
				bigBefore := map[Hash]bool{}
				for _, h := range big.hashes {
					bigBefore[h] = true
				}
				bw := fmt.Sprintf("%s, embedded behind %d opaque leaves (%d rows)", where, c.High, model.Rows(c.High+1))
				nh, err := big.proof.Undo(uint64(fr.b.Add), fr.bigPrevStump.NumLeaves+uint64(fr.b.Add), cloneU64(fr.bigProof.Targets), cloneHashes(fr.delH), cloneHashes(big.hashes),
					cloneU64(fr.bigUD.ToDestroy), cloneProof(fr.bigProof))
				if err != nil {
					return res.failf("%s failed: %v", bw, err)
				}
				big.hashes = nh
				big.stump = fr.bigPrevStump
				bgot := map[Hash]bool{}
				for _, h := range big.hashes {
					if added[h] {
						return res.failf("%s keeps leaf %s which the undone block added", bw, shortH(h))
					}
					if !bigBefore[h] && !deleted[h] {
						return res.failf("%s invents leaf %s", bw, shortH(h))
					}
					bgot[h] = true
				}
				for h := range bigBefore {
					if !added[h] && !bgot[h] {
						return res.failf("%s loses leaf %s which is live both before and after the block (held positions now %v)", bw, shortH(h), big.proof.Targets)
					}
				}
				bexpect := map[int]bool{}
				for sl, h := range f.Hashes {
					if bgot[h] && !f.Dead[sl] {
						bexpect[sl] = true
					}
				}
				if err := checkCachedProofEmbedded(f, c.High, big.stump, big.hashes, big.proof, bexpect); err != nil {
					return res.failf("%s: %v", bw, err)
				}
				res.count("embedded_undos", 1)
			}
			res.count("undos", 1)
			if depth >= 2 {
				res.count("undos_depth>=2", 1)
			}
			if len(heldBefore) > 0 && len(got) > 0 && fr.shape.deletes && fr.shape.adds {
				res.NonTrivial = true
				res.count("nontrivial_undos", 1)
			}
		default:
			return res.failf("case error: unknown op %q", st.Op)
		}
	}
	res.count("steps", len(c.Steps))
	return res
}

func TestC08(t *testing.T) {
	runSpec(t, Spec[C08Case]{ID: "C08", Gen: genC08, Run: runC08, Pre: preScaleC08})
}

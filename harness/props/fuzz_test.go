package props

// Native (coverage-guided) fuzz targets, thorough tier only. rapid.MakeFuzz turns the fuzzer's bytes
// into the draws of the same generators the rapid shards use (the generators are the data-provider
// layer), and the same Run with the same oracle judges the case. A failing case is written as Case
// JSON to $VERIF_FUZZ_OUT before the target fails, so that the reproducible unit is the saved
// case (re-judged by the driver through -verif.replay), not the campaign.

import (
	"os"
	"path/filepath"
	"testing"

	"pgregory.net/rapid"
)

func fuzzSpec[C any](f *testing.F, spec Spec[C]) {
	for _, seed := range [][]byte{{}, {0}, {1, 2, 3, 4, 5, 6, 7, 8}, []byte("utreexo-verif-seed-corpus-0123456789abcdefghijklmnopqrstuvwxyz"),
		{0xff, 0xff, 0xff, 0xff, 0xff, 0xff, 0xff, 0xff, 0xff, 0xff, 0xff, 0xff, 0xff, 0xff, 0xff, 0xff, 0xff, 0xff, 0xff, 0xff, 0xff, 0xff, 0xff, 0xff}} {
		f.Add(seed)
	}
	f.Fuzz(rapid.MakeFuzz(func(t *rapid.T) {
		c := spec.Gen(t)
		res := safeRun(spec.Run, c)
		if res.Err != nil {
			if dir := os.Getenv("VERIF_FUZZ_OUT"); dir != "" {
				cj := caseJSON(c)
				os.MkdirAll(dir, 0o755)
				os.WriteFile(filepath.Join(dir, caseHash(cj)+".json"), cj, 0o644)
			}
			t.Fatalf("%v", res.Err)
		}
	}))
}

func FuzzC03(f *testing.F) { fuzzSpec(f, Spec[C03Case]{ID: "C03", Gen: genC03, Run: runC03}) }
func FuzzC04(f *testing.F) { fuzzSpec(f, Spec[C04Case]{ID: "C04", Gen: genC04, Run: runC04}) }

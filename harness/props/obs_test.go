package props

// Observation helpers shared by C06, C09, C10, C13: what a caller can see of a forest,
// compared either with the reference model or with an earlier snapshot.

import (
	"fmt"
	"math/bits"
	"sort"

	"pgregory.net/rapid"

	u "github.com/utreexo/utreexo"
	"verifharness/model"
)

// proveSubsets returns up to six deterministic sub-lists (as slot lists) of the given slots.
func proveSubsets(slots []int) [][]int {
	n := len(slots)
	if n == 0 {
		return nil
	}
	out := [][]int{append([]int(nil), slots...), {slots[0]}}
	if n >= 2 {
		out = append(out, []int{slots[n-1]}, []int{slots[n-1], slots[0]})
		var every []int
		for i := 0; i < n; i += 2 {
			every = append(every, slots[i])
		}
		rev := make([]int, n)
		for i := range slots {
			rev[n-1-i] = slots[i]
		}
		out = append(out, every, rev)
	}
	return out
}

// checkFullForest compares everything a caller can observe of a full forest (Pollard or full
// MapPollard) with the model: count, roots, position of every live leaf, not-found for every
// other known hash, GetHash at every position where a node exists, canonical proofs.
// extraHashes are hashes that must NOT be found (dead leaves, leaves of undone branches, ...).
func checkFullForest(in *Inst, f *model.Forest, notFound []Hash, hashEverywhere bool) error {
	v := f.View()
	if err := in.checkRoots(v); err != nil {
		return err
	}
	acc := in.Acc()
	live := f.Live()
	// a request that has to be refused comes first: whatever a refused call leaves behind shows in the
	// checks that follow (the refusal itself is not judged here)
	if len(notFound) > 0 && !in.ar.off {
		func() {
			defer func() { recover() }()
			req := []Hash{notFound[0]}
			if len(live) > 0 {
				req = append([]Hash{f.Hashes[live[0]]}, req...)
			}
			acc.Prove(req)
		}()
	}
	for _, s := range live {
		p, ok := acc.GetLeafPosition(f.Hashes[s])
		if !ok || p != v.SlotPos[s] {
			return fmt.Errorf("%s: GetLeafPosition(live leaf of slot %d) = (%d,%v), reference position %d (N=%d)", in.Cfg, s, p, ok, v.SlotPos[s], v.N)
		}
	}
	for s, d := range f.Dead {
		if d {
			if _, again := v.LeafPos[f.Hashes[s]]; again {
				continue // the spent leaf was re-created with the same hash: it is live in another slot
			}
			if p, ok := acc.GetLeafPosition(f.Hashes[s]); ok {
				return fmt.Errorf("%s: GetLeafPosition(deleted leaf of slot %d) = (%d,true), want not found", in.Cfg, s, p)
			}
		}
	}
	for _, h := range notFound {
		if _, live := v.LeafPos[h]; live {
			continue
		}
		if p, ok := acc.GetLeafPosition(h); ok {
			return fmt.Errorf("%s: GetLeafPosition(%s, not a live leaf) = (%d,true), want not found", in.Cfg, shortH(h), p)
		}
	}
	for pos, n := range v.NodeAt {
		if !n.IsLeaf() {
			if p, ok := acc.GetLeafPosition(n.Hash); ok {
				return fmt.Errorf("%s: GetLeafPosition(hash of the inner node at %d) = (%d,true), want not found (N=%d)", in.Cfg, pos, p, v.N)
			}
		}
	}
	for pos, h := range v.At {
		if g := acc.GetHash(pos); g != h {
			return fmt.Errorf("%s: GetHash(%d) = %s, reference node hash %s (N=%d)", in.Cfg, pos, shortH(g), shortH(h), v.N)
		}
	}
	if hashEverywhere {
		for pos := uint64(0); pos <= v.MaxPos(); pos++ {
			if _, ok := v.At[pos]; ok {
				continue
			}
			if g := acc.GetHash(pos); g != (Hash{}) {
				return fmt.Errorf("%s: GetHash(%d) = %s where no node exists, want the zero hash (N=%d)", in.Cfg, pos, shortH(g), v.N)
			}
		}
	}
	for _, sub := range proveSubsets(live) {
		hs := f.HashesOf(sub)
		want := v.Proof(hs)
		got, err := acc.Prove(cloneHashes(hs))
		if err != nil {
			return fmt.Errorf("%s: Prove(slots %v) failed: %v", in.Cfg, sub, err)
		}
		if err := in.checkHeld(); err != nil {
			return err
		}
		if !eqProof(got, want) {
			return fmt.Errorf("%s: Prove(slots %v) = %s, canonical %s", in.Cfg, sub, proofStr(got), proofStr(want))
		}
		in.hold("Prove", got.Targets, got.Proof)
	}
	if in.P != nil {
		if int(in.P.NumLeaves-in.P.NumDels) != len(live) || len(in.P.NodeMap) != len(live) {
			return fmt.Errorf("pollard: tracks %d leaves (NumLeaves-NumDels=%d), %d are live", len(in.P.NodeMap), in.P.NumLeaves-in.P.NumDels, len(live))
		}
	} else if in.M.CachedLeaves.Length() != len(live) {
		return fmt.Errorf("%s: tracks %d leaves, %d are live", in.Cfg, in.M.CachedLeaves.Length(), len(live))
	}
	return nil
}

// partialBands computes, in the layout of R rows, the positions a partial forest must store
// (roots, remembered leaves, their canonical proof positions) and may store (those plus every
// position on the remembered leaves' paths and the siblings of those paths).
func partialBands(vr *model.View, tracked []int) (required, allowed map[uint64]bool) {
	required, allowed = map[uint64]bool{}, map[uint64]bool{}
	for _, rp := range vr.RootPos {
		required[rp] = true
		allowed[rp] = true
	}
	var targets []uint64
	for _, s := range tracked {
		p := vr.SlotPos[s]
		required[p] = true
		targets = append(targets, p)
	}
	path := vr.PathSet(targets)
	for p := range path {
		allowed[p] = true
		if !vr.IsRoot[p] {
			allowed[p^1] = true
			if !path[p^1] {
				required[p^1] = true
			}
		}
	}
	return
}

// checkPartialForest checks a non-full MapPollard against the model, given the set of slots it
// is expected to track: true hashes only, required ⊆ stored ⊆ allowed, cache exact, proofs canonical.
func checkPartialForest(in *Inst, f *model.Forest, tracked []int, exactCache bool) error {
	m := in.M
	v := f.View()
	if err := in.checkRoots(v); err != nil {
		return err
	}
	R := m.TotalRows
	if R < model.Rows(v.N) {
		return fmt.Errorf("%s: TotalRows %d is less than the %d rows that %d leaves need", in.Cfg, R, model.Rows(v.N), v.N)
	}
	vr := f.ViewR(R)
	sort.Ints(tracked)
	trackedSet := map[int]bool{}
	if !in.ar.off {
		// a request naming a live leaf the forest does NOT remember (before and after a remembered one) comes
		// first: it is either refused or answered with the true canonical proof, and whatever a refused call
		// leaves behind shows in the checks that follow
		for _, sl := range f.Live() {
			if inSet(tracked, sl) {
				continue
			}
			reqs := [][]int{{sl}}
			if len(tracked) > 0 {
				reqs = [][]int{{tracked[0], sl}, {sl, tracked[0]}}
			}
			for _, rq := range reqs {
				hs := f.HashesOf(rq)
				var got u.Proof
				var perr error
				panicked := false
				func() {
					defer func() {
						if recover() != nil {
							panicked = true
						}
					}()
					got, perr = m.Prove(cloneHashes(hs))
				}()
				if !panicked && perr == nil {
					if want := v.Proof(hs); !eqProof(got, want) {
						return fmt.Errorf("%s: Prove(slots %v), of which slot %d is not remembered, reports success with %s; the true proof is %s", in.Cfg, rq, sl, proofStr(got), proofStr(want))
					}
				}
			}
			break
		}
	}
	for _, s := range tracked {
		trackedSet[s] = true
		if f.Dead[s] {
			return fmt.Errorf("harness error: tracked slot %d is dead", s)
		}
		ip, ok := m.CachedLeaves.Get(f.Hashes[s])
		if !ok || ip != vr.SlotPos[s] {
			return fmt.Errorf("%s: remembered leaf of slot %d cached at (%d,%v), reference %d in the %d-row layout (N=%d)", in.Cfg, s, ip, ok, vr.SlotPos[s], R, v.N)
		}
		ep, ok := m.GetLeafPosition(f.Hashes[s])
		if !ok || ep != v.SlotPos[s] {
			return fmt.Errorf("%s: GetLeafPosition(remembered leaf of slot %d) = (%d,%v), reference %d (N=%d)", in.Cfg, s, ep, ok, v.SlotPos[s], v.N)
		}
	}
	if exactCache && m.CachedLeaves.Length() != len(tracked) {
		return fmt.Errorf("%s: caches %d leaves, expected exactly the %d remembered ones (N=%d)", in.Cfg, m.CachedLeaves.Length(), len(tracked), v.N)
	}
	required, allowed := partialBands(vr, tracked)
	var ferr error
	m.Nodes.ForEach(func(pos uint64, l u.Leaf) error {
		w, exists := vr.At[pos]
		if vr.IsRoot[pos] {
			exists = true // an empty root is stored as the zero hash
		}
		switch {
		case !exists:
			ferr = fmt.Errorf("%s: stores position %d (layout of %d rows, N=%d) where no node exists", in.Cfg, pos, R, v.N)
		case l.Hash != w:
			ferr = fmt.Errorf("%s: stores %s at position %d, the node there has hash %s (rows %d, N=%d)", in.Cfg, shortH(l.Hash), pos, shortH(w), R, v.N)
		case exactCache && !allowed[pos]:
			ferr = fmt.Errorf("%s: stores position %d which no remembered leaf needs (rows %d, N=%d, remembered slots %v)", in.Cfg, pos, R, v.N, tracked)
		}
		return nil
	})
	if ferr != nil {
		return ferr
	}
	for pos := range required {
		if _, ok := m.Nodes.Get(pos); !ok {
			return fmt.Errorf("%s: does not store required position %d (rows %d, N=%d, remembered slots %v)", in.Cfg, pos, R, v.N, tracked)
		}
	}
	for _, sub := range proveSubsets(tracked) {
		hs := f.HashesOf(sub)
		want := v.Proof(hs)
		got, err := m.Prove(cloneHashes(hs))
		if err != nil {
			return fmt.Errorf("%s: Prove(remembered slots %v) failed: %v", in.Cfg, sub, err)
		}
		if err := in.checkHeld(); err != nil {
			return err
		}
		if !eqProof(got, want) {
			return fmt.Errorf("%s: Prove(remembered slots %v) = %s, canonical %s", in.Cfg, sub, proofStr(got), proofStr(want))
		}
		in.hold("Prove", got.Targets, got.Proof)
	}
	return nil
}

// snapshot is a comparable record of what a caller observes.
type snapshot struct {
	N      uint64
	Roots  []Hash
	Pos    map[Hash]int64 // -1 = not found
	Hash   map[uint64]Hash
	Proofs []string
}

func takeSnapshot(in *Inst, probeHashes []Hash, maxPos uint64, subsets [][]Hash) snapshot {
	acc := in.Acc()
	s := snapshot{N: in.NumLeaves(), Roots: cloneHashes(in.Roots()), Pos: map[Hash]int64{}, Hash: map[uint64]Hash{}}
	for _, h := range probeHashes {
		if p, ok := acc.GetLeafPosition(h); ok {
			s.Pos[h] = int64(p)
		} else {
			s.Pos[h] = -1
		}
	}
	for p := uint64(0); p <= maxPos; p++ {
		s.Hash[p] = acc.GetHash(p)
	}
	for _, sub := range subsets {
		pr, err := acc.Prove(cloneHashes(sub))
		if err != nil {
			s.Proofs = append(s.Proofs, "ERR")
		} else {
			s.Proofs = append(s.Proofs, fmt.Sprintf("%v|%x", pr.Targets, pr.Proof))
		}
	}
	return s
}

func diffSnapshot(a, b snapshot, compareHashes bool) string {
	if a.N != b.N {
		return fmt.Sprintf("leaf count %d vs %d", a.N, b.N)
	}
	if !eqHashes(a.Roots, b.Roots) {
		return fmt.Sprintf("roots %s vs %s", shortHs(a.Roots), shortHs(b.Roots))
	}
	for h, p := range a.Pos {
		// a partial forest (compareHashes=false) may have been asked to remember further
		// leaves in between (Verify with remember is not a block and is not undone)
		if !compareHashes && p < 0 {
			continue
		}
		if q := b.Pos[h]; q != p {
			return fmt.Sprintf("position of leaf %s: %d vs %d (-1 = not found)", shortH(h), p, q)
		}
	}
	if compareHashes {
		for p, h := range a.Hash {
			if g := b.Hash[p]; g != h {
				return fmt.Sprintf("GetHash(%d): %s vs %s", p, shortH(h), shortH(g))
			}
		}
	}
	for i := range a.Proofs {
		if i < len(b.Proofs) && a.Proofs[i] != b.Proofs[i] {
			return fmt.Sprintf("proof of probe subset %d differs: %.80s vs %.80s", i, a.Proofs[i], b.Proofs[i])
		}
	}
	return ""
}

// ---- the same forest embedded at the low end of a forest with `high` more (opaque) leaves --------

// genHigh draws the number of opaque leaves that precede the small forest: a power of two (or two)
// strictly larger than the small forest can ever get, up to 2^62, or 0 for "not embedded".
func genHigh(t *rapid.T, maxLeaves int) uint64 {
	if rapid.IntRange(0, 2).Draw(t, "embed") == 0 {
		return 0
	}
	low := bits.Len64(uint64(maxLeaves) + 1)
	k := rapid.SampledFrom([]int{low, low + 1, 31, 32, 33, 47, 61, 62}).Draw(t, "highbit")
	if k < low {
		k = low
	}
	if rapid.IntRange(0, 3).Draw(t, "anybit") == 0 {
		k = rapid.IntRange(low, 62).Draw(t, "highbit-any")
	}
	high := uint64(1) << uint(k)
	if k < 62 && rapid.Bool().Draw(t, "morehigh") {
		high |= uint64(1) << uint(rapid.IntRange(k+1, 62).Draw(t, "highbit2"))
	}
	if low <= 28 && rapid.IntRange(0, 4).Draw(t, "manytrees") == 0 {
		// dozens of opaque trees: a run of 30+ one bits, so that the real forest's roots have an index
		// of 32 and more in the root list
		s := low + rapid.IntRange(0, 3).Draw(t, "runstart")
		c := rapid.IntRange(30, 62-s).Draw(t, "runlen")
		high = ((uint64(1) << uint(c)) - 1) << uint(s)
	}
	return high
}

// highRoots are the (opaque, non-zero) roots of the trees that make up the `high` leaves.
func highRoots(high uint64) []Hash {
	var r []Hash
	for b := 63; b >= 0; b-- {
		if high&(uint64(1)<<uint(b)) != 0 {
			r = append(r, model.FreshHash(5000+b))
		}
	}
	return r
}

func embedAll(pos []uint64, small *model.View, high uint64) []uint64 {
	out := make([]uint64, len(pos))
	for i, p := range pos {
		out[i] = embedPos(p, small, high)
	}
	return out
}

// highOK reports whether the small forest stays clear of the opaque trees (no carry into them).
func highOK(high uint64, n uint64) bool {
	return high == 0 || (n < high&-high && high < 1<<63)
}

package props

// C15 - the caching schedule names real leaves and never exceeds the memory limit.

import (
	"fmt"
	"sort"
	"testing"

	u "github.com/utreexo/utreexo"
	"pgregory.net/rapid"
	"verifharness/model"
)

type C15Case struct {
	Blocks []Block `json:"blocks"`
	Mems   []int   `json:"mems"` // memory limits, each tried on a fresh tracker fed the same summaries
	// Mode: "" - a fresh tracker per limit; "shared" - one tracker asked for every limit in turn;
	// "incremental" - one tracker, asked (for every limit) after each prefix length in Cuts and at the
	// end, the answer judged against the blocks recorded so far.
	// "reorg" - one tracker; before the blocks listed in Stale the caller keeps a copy of the tracker VALUE
	// (the constructor hands it out by value), records a stale tip - another valid block on the same state -
	// and then goes back to the copy and records the block that stays. The schedule is about the blocks
	// that stay.
	Mode  string   `json:"mode,omitempty"`
	Cuts  []int    `json:"cuts,omitempty"`
	Stale []c15Tip `json:"stale,omitempty"`
}

type c15Tip struct {
	At int   `json:"at"` // index of the staying block the stale tip competes with
	B  Block `json:"b"`
}

func genC15(t *rapid.T) C15Case {
	lim := genLimitsGiant(t)
	if thorough() && lim.maxAdd <= 200 {
		lim.maxLeaves, lim.maxBlocks, lim.maxAdd = 500, 40, 60
	}
	c := C15Case{Blocks: genHistory(t, lim, false)}
	total := 0
	for _, b := range c.Blocks {
		total += b.Add
	}
	c.Mems = []int{rapid.IntRange(1, 3).Draw(t, "small")}
	if total > 0 {
		c.Mems = append(c.Mems, rapid.IntRange(1, total).Draw(t, "mid"))
	}
	c.Mode = rapid.SampledFrom([]string{"", "", "shared", "incremental", "reorg"}).Draw(t, "mode")
	if c.Mode == "reorg" && len(c.Blocks) > 1 {
		f := &model.Forest{}
		small := lim
		if small.maxAdd > 40 {
			small.maxAdd = 40
		}
		for i, b := range c.Blocks {
			if i > 0 && rapid.IntRange(0, 2).Draw(t, "stale-here") == 0 {
				c.Stale = append(c.Stale, c15Tip{At: i, B: genBlock(t, f.Clone(), small, false)})
			}
			applyToModel(f, b)
		}
	}
	if c.Mode == "incremental" && len(c.Blocks) > 1 {
		seen := map[int]bool{}
		for k := rapid.IntRange(1, 3).Draw(t, "ncuts"); k > 0; k-- {
			if cut := rapid.IntRange(1, len(c.Blocks)-1).Draw(t, "cut"); !seen[cut] {
				seen[cut] = true
				c.Cuts = append(c.Cuts, cut)
			}
		}
		sort.Ints(c.Cuts)
	}
	// an unbounded limit is always tried: completeness is the clause most changes break
	if rapid.Bool().Draw(t, "big") {
		c.Mems = append(c.Mems, total+rapid.IntRange(0, 5).Draw(t, "over")+func() int {
			if total == 0 {
				return 1
			}
			return 0
		}())
	} else {
		c.Mems = append(c.Mems, 1<<20)
	}
	return c
}

func runC15(c C15Case) *Result {
	res := &Result{}
	f := &model.Forest{}
	nb := len(c.Blocks)
	created := map[uint64]int{} // slot -> block that added it
	deleted := map[uint64]int{} // slot -> block that deleted it
	firstSlot := make([]uint64, nb)
	numAdds := make([]int, nb)
	var summaries [][]uint64
	sameBlockEmptyAndAdd := false
	for i, b := range c.Blocks {
		for _, s := range b.Del {
			if s < 0 || s >= len(f.Dead) || f.Dead[s] {
				return res.failf("case error: block %d deletes slot %d which is not live", i, s)
			}
		}
		if b.Add > 65535 {
			return res.failf("case error: more than 65535 additions")
		}
		sh := shapeOf(f, b)
		if sh.emptiesTree && sh.adds {
			sameBlockEmptyAndAdd = true
		}
		if sh.overwritesEmpty {
			res.count("blocks-overwriting-empty-roots", 1)
		}
		v := f.View()
		pr := v.Proof(f.HashesOf(b.Del))
		summaries = append(summaries, cloneU64(pr.Targets))
		for _, s := range b.Del {
			deleted[uint64(s)] = i
		}
		firstSlot[i] = f.N()
		numAdds[i] = b.Add
		for k := 0; k < b.Add; k++ {
			created[f.N()+uint64(k)] = i
		}
		applyToModel(f, b)
	}
	evictions := false
	// judge: is sched a valid schedule with limit mem for the first nb recorded blocks?
	judge := func(sched [][]uint64, nb, mem int, how string) error {
		total := 0
		for b := 0; b < nb; b++ {
			total += numAdds[b]
		}
		if len(sched) != nb {
			return fmt.Errorf("%sGenerateCachingSchedule(%d) returned %d lists for %d recorded blocks", how, mem, len(sched), nb)
		}
		scheduled := map[uint64]bool{}
		for b, list := range sched {
			for j, p := range list {
				if j > 0 && list[j-1] >= p {
					return fmt.Errorf("%slimit %d: schedule of block %d is %v: not strictly ascending", how, mem, b, list)
				}
				if p < firstSlot[b] || p >= firstSlot[b]+uint64(numAdds[b]) {
					return fmt.Errorf("%slimit %d: block %d schedules %d, but that block added the slots [%d,%d) (schedule %v)", how, mem, b, p, firstSlot[b], firstSlot[b]+uint64(numAdds[b]), sched)
				}
				d, ok := deleted[p]
				if !ok || d <= b || d >= nb {
					return fmt.Errorf("%slimit %d: block %d schedules slot %d, which is not deleted in a later recorded block (schedule %v)", how, mem, b, p, sched)
				}
				scheduled[p] = true
			}
		}
		// occupancy per block
		for b := 0; b < nb; b++ {
			n := 0
			for s := range scheduled {
				if created[s] <= b && b < deleted[s] {
					n++
				}
			}
			if n > mem {
				return fmt.Errorf("%slimit %d: %d scheduled leaves exist at the same time after block %d (schedule %v)", how, mem, n, b, sched)
			}
		}
		spendable := 0
		for _, d := range deleted {
			if d < nb {
				spendable++
			}
		}
		if mem >= total {
			for s, d := range deleted {
				if d < nb && !scheduled[s] {
					return fmt.Errorf("%slimit %d >= %d leaves ever added: slot %d (added in block %d, deleted in block %d) is not scheduled (schedule %v)", how, mem, total, s, created[s], deleted[s], sched)
				}
			}
			res.count("unbounded-limit-runs", 1)
		} else if len(scheduled) < spendable {
			evictions = true
		}
		res.count("schedules", 1)
		res.count("scheduled-leaves", len(scheduled))
		return nil
	}
	for _, mem := range c.Mems {
		if mem < 1 {
			return res.failf("case error: memory limit %d", mem)
		}
	}
	var ar arena
	switch c.Mode {
	case "":
		for _, mem := range c.Mems {
			cs := u.NewCachingScheduleTracker(nb)
			for i := range c.Blocks {
				ar.next()
				cs.AddBlockSummary(ar.u64s(summaries[i]), uint16(numAdds[i])) // every block summary is handed over in the same recycled buffer
			}
			if err := judge(cs.GenerateCachingSchedule(mem), nb, mem, ""); err != nil {
				return res.failf("%v", err)
			}
		}
	case "shared":
		cs := u.NewCachingScheduleTracker(nb)
		for i := range c.Blocks {
			ar.next()
			cs.AddBlockSummary(ar.u64s(summaries[i]), uint16(numAdds[i])) // every block summary is handed over in the same recycled buffer
		}
		for k, mem := range c.Mems {
			if err := judge(cs.GenerateCachingSchedule(mem), nb, mem, fmt.Sprintf("call %d on the same tracker: ", k+1)); err != nil {
				return res.failf("%v", err)
			}
		}
		res.class("tracker:asked-repeatedly")
	case "incremental":
		cs := u.NewCachingScheduleTracker(rapidlessCap(nb))
		at := map[int]bool{nb: true}
		for _, k := range c.Cuts {
			if k < 1 || k > nb {
				return res.failf("case error: cut %d", k)
			}
			at[k] = true
		}
		for i := range c.Blocks {
			ar.next()
			cs.AddBlockSummary(ar.u64s(summaries[i]), uint16(numAdds[i])) // every block summary is handed over in the same recycled buffer
			if !at[i+1] {
				continue
			}
			for _, mem := range c.Mems {
				if err := judge(cs.GenerateCachingSchedule(mem), i+1, mem, fmt.Sprintf("asked after %d of %d blocks: ", i+1, nb)); err != nil {
					return res.failf("%v", err)
				}
			}
		}
		if len(c.Cuts) > 0 {
			res.class("tracker:asked-between-blocks")
		}
	case "reorg":
		cs := u.NewCachingScheduleTracker(nb)
		tips := map[int]Block{}
		for _, tp := range c.Stale {
			if tp.At < 1 || tp.At >= nb {
				return res.failf("case error: stale tip at block %d", tp.At)
			}
			tips[tp.At] = tp.B
		}
		g := &model.Forest{}
		for i, b := range c.Blocks {
			if tip, ok := tips[i]; ok {
				for _, sl := range tip.Del {
					if sl < 0 || sl >= len(g.Dead) || g.Dead[sl] {
						return res.failf("case error: stale tip at block %d deletes slot %d which is not live", i, sl)
					}
				}
				if tip.Add > 65535 {
					return res.failf("case error: more than 65535 additions")
				}
				before := cs // the tracker is a plain value: this is the caller's snapshot
				ar.next()
				cs.AddBlockSummary(ar.u64s(g.View().Proof(g.HashesOf(tip.Del)).Targets), uint16(tip.Add))
				cs = before
				res.count("stale-tips-recorded-and-dropped", 1)
			}
			ar.next()
			cs.AddBlockSummary(ar.u64s(summaries[i]), uint16(numAdds[i]))
			applyToModel(g, b)
		}
		for k, mem := range c.Mems {
			if err := judge(cs.GenerateCachingSchedule(mem), nb, mem, fmt.Sprintf("after %d stale tips were recorded and dropped (tracker value copied back), call %d: ", len(tips), k+1)); err != nil {
				return res.failf("%v", err)
			}
		}
		if len(tips) > 0 {
			res.class("tracker:reorganised-by-value-copy")
		}
	default:
		return res.failf("case error: mode %q", c.Mode)
	}
	res.NonTrivial = sameBlockEmptyAndAdd || evictions
	if evictions {
		res.class("eviction-decisions")
	}
	if sameBlockEmptyAndAdd {
		res.class("block-empties-tree-and-adds")
	}
	_ = fmt.Sprint
	return res
}

func TestC15(t *testing.T) {
	runSpec(t, Spec[C15Case]{ID: "C15", Gen: genC15, Run: runC15})
}

// rapidlessCap: the block count handed to NewCachingScheduleTracker is only a capacity hint; an
// incremental user does not know the final count, so hand in half of it.
func rapidlessCap(nb int) int { return nb / 2 }

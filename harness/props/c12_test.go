package props

// C12 - the map forest is race-free and every query sees a whole-block state.
//
// Built with -race. Two schedule generators over the same case data:
//
//	owned:  the writer is suspended by the verifPoint hook at a drawn (step, site, occurrence)
//	        INSIDE its critical section; every query is started in its own goroutine during the
//	        pause; after a grace period the writer is released. A query that returns while the
//	        writer is paused must carry the answer of the state BEFORE the step; any query must
//	        carry the answer of the state before or after the step.
//	stress: R reader goroutines loop over the queries while the writer runs the whole script;
//	        each result must equal the answer in one of the between-steps states that were
//	        current during the call (step counter read before and after).
//
// The expected answers come from a sequential replica run of the same script on the real code
// (differential oracle: sequential vs concurrent), so nothing here depends on the model except
// for building honest proofs.

import (
	"bytes"
	"encoding/binary"
	"fmt"
	"os"
	"runtime"
	"sort"
	"strings"
	"sync"
	"sync/atomic"
	"testing"
	"time"

	u "github.com/utreexo/utreexo"
	"pgregory.net/rapid"
	"verifharness/model"
)

type C12Query struct {
	Kind  string   `json:"kind"`
	State int      `json:"state"`           // between-steps state in which Slots are resolved to hashes / positions
	Slots []int    `json:"slots,omitempty"` // leaves named by slot (resolved in State)
	Pos   []uint64 `json:"pos,omitempty"`
}

type C12Case struct {
	Cfg     Cfg        `json:"cfg"`
	Steps   []WStep    `json:"steps"`
	Mode    string     `json:"mode"` // owned | stress
	Pause   int        `json:"pause,omitempty"`
	Site    string     `json:"site,omitempty"`
	Occ     int        `json:"occ,omitempty"`
	Queries []C12Query `json:"queries"`
	Readers int        `json:"readers,omitempty"`
	Procs   int        `json:"procs,omitempty"`
	Gap     int        `json:"gap,omitempty"` // stress: reader operations the writer waits for between steps
	// Second: owned mode - the NEXT step of the script is issued from another goroutine while the
	// first writer is suspended (it must wait); stress mode - a second goroutine keeps calling
	// Verify(remember=true) with the honest proofs of Extra while the script runs.
	Second bool       `json:"second,omitempty"`
	Extra  []C12Query `json:"extra,omitempty"` // stress+second: leaf sets (resolved in their State) verified with remember by the second writer
}

var c12QueryKinds = []string{"roots", "stump", "prove", "verify", "leafpos", "leafposs", "gethash", "missing", "numleaves", "treerows", "write", "vpp", "writefail"}

var c12Sites = map[string][]string{
	"block":  {"Modify.afterRemove", "add.afterLeaf", "add.afterLeaf", "remove.afterSingle", "verify.beforeIngest", "ingest.afterProof"},
	"undo":   {"Undo.afterUndoAdd", "Undo.afterUndoDeletion"},
	"verify": {"verify.beforeIngest", "ingest.afterProof"},
	"ingest": {"ingest.afterProof"},
	"vpp":    {"verify.beforeIngest", "ingest.afterProof"},
	"prune":  {"Prune.afterUnmark"},
	"reread": {"Read.afterHeader", "Read.afterCached"},
}

// c12Normalize makes every library call of the writer its own step: a partial forest has to
// Verify(remember) a block's deletions before Modify (two critical sections, with a legitimate
// whole state in between), so that verification becomes an explicit step of the script.
// Idempotent.
func c12Normalize(cfg Cfg, steps []WStep) []WStep {
	if cfg.Full {
		return steps
	}
	var out []WStep
	for _, st := range steps {
		if st.Op == "block" && st.B != nil && len(st.B.Del) > 0 {
			if n := len(out); n == 0 || out[n-1].Op != "verify" || fmt.Sprint(out[n-1].Set) != fmt.Sprint(st.B.Del) {
				out = append(out, WStep{Op: "verify", Set: append([]int(nil), st.B.Del...)})
			}
		}
		out = append(out, st)
	}
	return out
}

func genC12(t *rapid.T) C12Case {
	lim := tierLimits()
	lim.maxLeaves, lim.maxBlocks, lim.maxAdd = 48, 8, 8
	if thorough() {
		lim.maxLeaves, lim.maxBlocks, lim.maxAdd = 160, 14, 20
	}
	c := C12Case{Cfg: genMapCfg(t, "cfg")}
	c.Cfg.Direct = false
	partial := !c.Cfg.Full
	g := newWgen(partial)
	ops := []string{"block", "block", "block", "block", "undo", "verify", "reread"}
	if partial {
		ops = append(ops, "prune", "ingest", "verify", "vpp")
	}
	n := rapid.IntRange(2, lim.maxBlocks).Draw(t, "nsteps")
	// 1 script in 12 contains one block that adds thousands of leaves (a long critical section; later
	// queries then name hundreds of hashes)
	bigAt := -1
	if rapid.IntRange(0, 11).Draw(t, "bigblock") == 0 {
		bigAt = rapid.IntRange(0, n-1).Draw(t, "bigat")
	}
	for i := 0; i < n; i++ {
		if i == bigAt {
			c.Steps = append(c.Steps, g.addOnly(rapid.IntRange(1100, 1700).Draw(t, "bigadd")))
			continue
		}
		c.Steps = append(c.Steps, g.next(t, lim, ops))
	}
	c.Steps = c12Normalize(c.Cfg, c.Steps)
	c.Cfg.NoVerify = true
	n = len(c.Steps)
	states, _, _ := c12States(c)
	if states == nil {
		// the library refused an honest step: Run reports that as setup-failed; give the queries something to resolve against
		states = make([]*model.Forest, n+1)
		for i := range states {
			states[i] = &model.Forest{}
		}
	}
	c.Mode = rapid.SampledFrom([]string{"owned", "owned", "stress"}).Draw(t, "mode")
	if c.Mode == "owned" {
		// dry sequential run recording which hook sites each step passes, so that the pause is
		// drawn from sites that are really reached (construction, not rejection)
		hits := c12SiteHits(c)
		var withHits []int
		for i, h := range hits {
			if len(h) > 0 {
				withHits = append(withHits, i)
			}
		}
		if len(withHits) > 0 && rapid.IntRange(0, 9).Draw(t, "blind") != 0 {
			c.Pause = rapid.SampledFrom(withHits).Draw(t, "pause")
			k := rapid.IntRange(0, len(hits[c.Pause])-1).Draw(t, "hit")
			c.Site = hits[c.Pause][k]
			for j := 0; j < k; j++ {
				if hits[c.Pause][j] == c.Site {
					c.Occ++
				}
			}
		} else {
			c.Pause = rapid.IntRange(0, n-1).Draw(t, "pause")
			c.Site = "none" // steps that pass no hook site (a refused Verify, an empty call)
			if sites := c12Sites[c.Steps[c.Pause].Op]; len(sites) > 0 {
				c.Site = rapid.SampledFrom(sites).Draw(t, "site")
			}
			c.Occ = rapid.IntRange(0, 3).Draw(t, "occ")
		}
	} else {
		c.Readers = rapid.IntRange(1, 6).Draw(t, "readers")
		c.Procs = rapid.SampledFrom([]int{1, 2, 4, 8, 16}).Draw(t, "procs")
		c.Gap = rapid.IntRange(0, 40).Draw(t, "gap")
		if bigAt >= 0 { // queries on thousands of leaves are slow under the race detector: keep the case short
			c.Readers = rapid.IntRange(1, 3).Draw(t, "readers-big")
			c.Gap = rapid.IntRange(0, 4).Draw(t, "gap-big")
		}
	}
	c.Second = rapid.IntRange(0, 2).Draw(t, "second") == 0
	if c.Second && c.Mode == "stress" {
		// "vpp" is two library calls (GetMissingPositions, then VerifyPartialProof with exactly those
		// hashes): a second writer remembering leaves in between legitimately changes what is missing
		for i := range c.Steps {
			if c.Steps[i].Op == "vpp" {
				c.Steps[i].Op = "ingest"
			}
		}
		ne := rapid.IntRange(1, 4).Draw(t, "nextra")
		for i := 0; i < ne; i++ {
			q := C12Query{Kind: "verify-remember", State: rapid.IntRange(0, n).Draw(t, "xstate")}
			if states[q.State].NumLive() > 0 {
				q.Slots = genRequest(t, states[q.State])
				c.Extra = append(c.Extra, q)
			}
		}
	}
	// queries: every kind at least once, arguments resolved in a state near the pause
	for _, k := range c12QueryKinds {
		reps := 1
		if k == "prove" || k == "gethash" || k == "leafpos" {
			reps = 2
		}
		for r := 0; r < reps; r++ {
			q := C12Query{Kind: k}
			if c.Mode == "owned" {
				q.State = c.Pause + rapid.IntRange(0, 1).Draw(t, "qstate")
			} else {
				q.State = rapid.IntRange(0, n).Draw(t, "qstate")
			}
			f := states[q.State]
			switch k {
			case "prove", "verify", "leafposs", "missing", "vpp":
				if f.NumLive() > 0 {
					q.Slots = genRequest(t, f)
				}
			case "leafpos":
				if len(f.Hashes) > 0 {
					q.Slots = []int{rapid.IntRange(0, len(f.Hashes)-1).Draw(t, "slot")}
				}
			case "gethash":
				top := f.View().MaxPos() + 2
				np := rapid.IntRange(1, 6).Draw(t, "npos")
				for i := 0; i < np; i++ {
					q.Pos = append(q.Pos, rapid.Uint64Range(0, top).Draw(t, "pos"))
				}
			}
			c.Queries = append(c.Queries, q)
		}
	}
	return c
}

// c12SiteHits runs the script sequentially and returns, per step, the hook sites passed in order.
func c12SiteHits(c C12Case) [][]string {
	hits := make([][]string, len(c.Steps))
	cur := -1
	u.VerifSetPoint(func(site string) {
		if cur >= 0 {
			hits[cur] = append(hits[cur], site)
		}
	})
	defer u.VerifSetPoint(nil)
	w := newWorld([]Cfg{c.Cfg})
	for i, st := range c.Steps {
		cur = i
		if ce, oe := w.step(i, st); ce != nil || oe != nil {
			break
		}
	}
	cur = -1
	return hits
}

// resolved query: concrete arguments
type c12Resolved struct {
	kind    string
	hashes  []Hash
	proof   u.Proof
	targets []uint64
	supply  []Hash
	pos     []uint64
}

func canonWrite(m *u.MapPollard) string {
	var buf bytes.Buffer
	n, err := m.Write(&buf)
	if err != nil {
		return "ERR"
	}
	b := buf.Bytes()
	if n != len(b) || len(b) < 17 {
		return fmt.Sprintf("BAD-COUNT %d/%d", n, len(b))
	}
	rows := b[0]
	nl := binary.LittleEndian.Uint64(b[1:9])
	nc := binary.LittleEndian.Uint64(b[9:17])
	off := 17
	var cached []string
	for i := uint64(0); i < nc && off+40 <= len(b); i++ {
		cached = append(cached, fmt.Sprintf("%x@%d", b[off:off+4], binary.LittleEndian.Uint64(b[off+32:off+40])))
		off += 40
	}
	if off+8 > len(b) {
		return "TRUNCATED"
	}
	nn := binary.LittleEndian.Uint64(b[off : off+8])
	off += 8
	var nodes []string
	for i := uint64(0); i < nn && off+41 <= len(b); i++ {
		nodes = append(nodes, fmt.Sprintf("%d=%x/%d", binary.LittleEndian.Uint64(b[off:off+8]), b[off+8:off+12], b[off+40]))
		off += 41
	}
	if off != len(b) {
		return "TRAILING"
	}
	sort.Strings(cached)
	sort.Strings(nodes)
	return fmt.Sprintf("rows=%d n=%d cached=%v nodes=%v", rows, nl, cached, nodes)
}

func evalQuery(m *u.MapPollard, q c12Resolved) (out string) {
	defer func() {
		if p := recover(); p != nil {
			out = fmt.Sprintf("PANIC: %v", p)
		}
	}()
	switch q.kind {
	case "roots":
		return shortHs(m.GetRoots())
	case "stump":
		s := m.GetStump()
		return fmt.Sprintf("%d %s", s.NumLeaves, shortHs(s.Roots))
	case "prove":
		p, err := m.Prove(cloneHashes(q.hashes))
		if err != nil {
			return "ERR"
		}
		return proofStr(p)
	case "verify":
		if err := m.Verify(cloneHashes(q.hashes), cloneProof(q.proof), false); err != nil {
			return "ERR"
		}
		return "ok"
	case "vpp":
		if err := m.VerifyPartialProof(cloneU64(q.targets), cloneHashes(q.hashes), cloneHashes(q.supply), false); err != nil {
			return "ERR"
		}
		return "ok"
	case "leafpos":
		if len(q.hashes) == 0 {
			return "-"
		}
		p, ok := m.GetLeafPosition(q.hashes[0])
		return fmt.Sprintf("%d,%v", p, ok)
	case "leafposs":
		return fmt.Sprint(m.GetLeafHashPositions(cloneHashes(q.hashes)))
	case "gethash":
		var sb strings.Builder
		for _, p := range q.pos {
			sb.WriteString(shortH(m.GetHash(p)))
			sb.WriteByte(' ')
		}
		return sb.String()
	case "missing":
		return fmt.Sprint(m.GetMissingPositions(cloneU64(q.targets)))
	case "numleaves":
		return fmt.Sprint(m.GetNumLeaves())
	case "treerows":
		return fmt.Sprint(m.GetTreeRows())
	case "write":
		return canonWrite(m)
	case "writefail":
		// Write to a sink that gives up after 40 bytes: the call fails, and whatever it started must be over
		// when it returns (the next writer step runs right behind it)
		if _, err := m.Write(&failingSink{limit: 40, partial: true}); err != nil {
			return "ERR"
		}
		return "no error"
	}
	return "?"
}

func isMultiCall(kind string) bool { return kind == "gethash" }

// c12Sequential runs the script on a fresh world and returns the forests of all between-steps states.
func c12States(c C12Case) ([]*model.Forest, error, error) {
	w := newWorld([]Cfg{c.Cfg})
	fs := []*model.Forest{w.f.Clone()}
	for i, st := range c.Steps {
		ce, oe := w.step(i, st)
		if ce != nil || oe != nil {
			return nil, ce, oe
		}
		fs = append(fs, w.f.Clone())
	}
	return fs, nil, nil
}

func runC12(c C12Case) *Result {
	res := &Result{}
	u.VerifSetPoint(nil)
	defer u.VerifSetPoint(nil)
	if c.Cfg.Kind != "map" {
		return res.failf("case error: C12 is about the map forest")
	}
	c.Cfg.Direct = false // Direct mode peeks into the exported cache without the lock: fine sequentially, not here
	c.Steps = c12Normalize(c.Cfg, c.Steps)
	// after normalisation every block of a partial forest is preceded by its own Verify(remember) step, so
	// the block step itself is Modify alone: ONE library call, one critical section (a second writer waiting
	// for the lock must not be able to slip in between two calls of the same step)
	c.Cfg.NoVerify = true
	n := len(c.Steps)
	states, ce, oe := c12States(c)
	if ce != nil {
		return res.failf("%v", ce)
	}
	if oe != nil {
		res.class("setup-failed")
		return res
	}
	// resolve the queries
	rq := make([]c12Resolved, len(c.Queries))
	for i, q := range c.Queries {
		if q.State < 0 || q.State > n {
			return res.failf("case error: query state %d", q.State)
		}
		f := states[q.State]
		v := f.View()
		r := c12Resolved{kind: q.Kind, pos: q.Pos}
		for _, s := range q.Slots {
			if s < 0 || s >= len(f.Hashes) {
				return res.failf("case error: query slot %d", s)
			}
			r.hashes = append(r.hashes, f.Hashes[s])
		}
		switch q.Kind {
		case "verify", "missing", "vpp":
			for _, s := range q.Slots {
				if f.Dead[s] {
					return res.failf("case error: query names dead slot %d", s)
				}
			}
			r.proof = v.Proof(r.hashes)
			r.targets = cloneU64(r.proof.Targets)
			r.supply = cloneHashes(r.proof.Proof) // VerifyPartialProof consumes only what it misses: give everything it could ask for
		}
		rq[i] = r
	}
	// sequential replica: answer of every query in every state
	ans := make([][]string, n+1)
	calls := make([]func(in *Inst) error, n)
	var finalTracked []int
	{
		w := newWorld([]Cfg{c.Cfg})
		for k := 0; k <= n; k++ {
			if k > 0 {
				if ce, oe := w.step(k-1, c.Steps[k-1]); ce != nil || oe != nil {
					res.class("setup-failed")
					return res
				}
				calls[k-1] = w.lastCall
			}
			ans[k] = make([]string, len(rq))
			for i, q := range rq {
				ans[k][i] = evalQuery(w.insts[0].M, q)
				if strings.HasPrefix(ans[k][i], "PANIC") {
					res.class("setup-failed") // a sequential panic is C04/C10's business
					return res
				}
			}
		}
		finalTracked = w.trackedList()
	}
	res.class("mode:" + c.Mode)
	if c.Second {
		res.class("second-writer:" + c.Mode)
	}
	if c.Mode == "owned" {
		return runC12Owned(c, rq, ans, calls, res)
	}
	// second writer's calls
	var extra []c12Resolved
	if c.Second {
		for _, q := range c.Extra {
			if q.State < 0 || q.State > n {
				return res.failf("case error: extra state %d", q.State)
			}
			f := states[q.State]
			r := c12Resolved{kind: "verify-remember"}
			for _, sl := range q.Slots {
				if sl < 0 || sl >= len(f.Hashes) || f.Dead[sl] {
					return res.failf("case error: extra names slot %d which is not live in state %d", sl, q.State)
				}
				r.hashes = append(r.hashes, f.Hashes[sl])
			}
			r.proof = f.View().Proof(r.hashes)
			extra = append(extra, r)
		}
	}
	return runC12Stress(c, rq, ans, calls, extra, states[n], finalTracked, res)
}

const c12Stall = 60 * time.Second

// c12Progress counts anything that shows the case is alive: hook sites passed inside the library
// (every added leaf, every removed target, ...), finished queries, finished writer steps. A stall is
// declared only when this counter has not moved for c12Stall - never because a (possibly huge, race-
// instrumented, CPU-starved) case simply takes long.
var c12Progress atomic.Int64

// c12Wait waits for ch; it returns false when the progress counter stood still for c12Stall.
func c12Wait(ch <-chan struct{}) bool {
	last, since := c12Progress.Load(), time.Now()
	tick := time.NewTicker(500 * time.Millisecond)
	defer tick.Stop()
	for {
		select {
		case <-ch:
			return true
		case <-tick.C:
			if cur := c12Progress.Load(); cur != last {
				last, since = cur, time.Now()
			} else if time.Since(since) > c12Stall {
				return false
			}
		}
	}
}

// stalled decides between "deadlock" (every goroutine of the case parked on the RWMutex) and an
// infrastructure timeout.
func c12Stalled(res *Result, what string) *Result {
	buf := make([]byte, 1<<20)
	buf = buf[:runtime.Stack(buf, true)]
	dump := string(buf)
	if strings.Contains(dump, "sync.(*RWMutex)") {
		return res.failf("deadlock: %s: no hook site passed, no query and no writer step finished for %v, and goroutines are parked on the forest's RWMutex:\n%s", what, c12Stall, dump[:min(len(dump), 6000)])
	}
	fmt.Printf("INFRA: %s made no progress for %v (not a deadlock on the RWMutex)\n%s\n", what, c12Stall, dump[:min(len(dump), 3000)])
	os.Exit(4)
	return res
}

func runC12Owned(c C12Case, rq []c12Resolved, ans [][]string, calls []func(in *Inst) error, res *Result) *Result {
	n := len(c.Steps)
	if c.Pause < 0 || c.Pause >= n {
		return res.failf("case error: pause step %d", c.Pause)
	}
	inst := newInst(c.Cfg)
	for i := 0; i < c.Pause; i++ {
		if err := calls[i](inst); err != nil {
			res.class("setup-failed")
			return res
		}
	}
	m := inst.M
	paused := make(chan struct{})
	release := make(chan struct{})
	var armed atomic.Bool
	var seen atomic.Int32
	var writerGID atomic.Int64
	armed.Store(true)
	u.VerifSetPoint(func(site string) {
		c12Progress.Add(1)
		if !armed.Load() || site != c.Site || writerGID.Load() != curGID() {
			return
		}
		if int(seen.Add(1))-1 != c.Occ {
			return
		}
		armed.Store(false)
		close(paused)
		<-release
	})
	writerDone := make(chan [2]error, 1)
	go func() {
		writerGID.Store(curGID())
		writerDone <- [2]error{nil, calls[c.Pause](inst)}
	}()
	reached := false
	firstEvent := make(chan struct{})
	var firstErrs [2]error
	finishedFirst := false
	go func() {
		select {
		case <-paused:
			reached = true
		case errs := <-writerDone:
			firstErrs, finishedFirst = errs, true
			writerDone <- errs
		}
		close(firstEvent)
	}()
	if !c12Wait(firstEvent) {
		return c12Stalled(res, "the writer")
	}
	if finishedFirst {
		armed.Store(false)
		if firstErrs[0] != nil || firstErrs[1] != nil {
			res.class("setup-failed")
			return res
		}
	}
	type qres struct {
		out         string
		duringPause bool
	}
	results := make([]qres, len(rq))
	var released atomic.Bool
	var wg sync.WaitGroup
	for i := range rq {
		wg.Add(1)
		go func(i int) {
			defer wg.Done()
			out := evalQuery(m, rq[i])
			c12Progress.Add(1)
			results[i] = qres{out, reached && !released.Load()}
		}(i)
	}
	// second writer: the next step of the script, issued while the first writer is suspended inside
	// its critical section. It has to wait for the lock; it must not complete during the pause.
	// "reread" is two library calls (Write, then Read): not a step another writer can issue atomically
	second := c.Second && reached && c.Pause+1 < n && c.Steps[c.Pause+1].Op != "reread"
	var secondErr error
	var secondEarly bool
	if second {
		wg.Add(1)
		go func() {
			defer wg.Done()
			defer func() {
				if p := recover(); p != nil {
					secondErr = fmt.Errorf("panic: %v", p)
				}
			}()
			secondErr = calls[c.Pause+1](inst)
			secondEarly = !released.Load()
		}()
	}
	if reached {
		// grace period: an opportunity for a wrongly unlocked query to finish. A query that is
		// still blocked is fine, so timing can only cause a miss, never an alarm.
		time.Sleep(3 * time.Millisecond)
		released.Store(true)
		close(release)
	}
	qdone := make(chan struct{})
	go func() { wg.Wait(); close(qdone) }()
	if !c12Wait(qdone) {
		return c12Stalled(res, "the queries")
	}
	wfin := make(chan struct{})
	var werrs [2]error
	go func() { werrs = <-writerDone; close(wfin) }()
	if !c12Wait(wfin) {
		return c12Stalled(res, "the writer after release")
	}
	if werrs[0] != nil || werrs[1] != nil {
		res.class("setup-failed")
		return res
	}
	before, afterS := ans[c.Pause], ans[c.Pause+1]
	final := afterS
	if second {
		what := fmt.Sprintf("step %d (%s) issued from a second goroutine while the writer was suspended inside step %d (%s) at %s#%d", c.Pause+1, c.Steps[c.Pause+1].Op, c.Pause, c.Steps[c.Pause].Op, c.Site, c.Occ)
		if secondEarly {
			return res.failf("%s COMPLETED during the pause: the two writers were inside the forest at the same time", what)
		}
		if secondErr != nil {
			return res.failf("%s failed although the same call succeeds when the steps run one after the other: %v", what, secondErr)
		}
		final = ans[c.Pause+2]
		res.count("second-writer-steps", 1)
	}
	early := 0
	for i, r := range results {
		q := c.Queries[i]
		if strings.HasPrefix(r.out, "PANIC") {
			return res.failf("query %s panicked while the writer was inside step %d (%s) at %s: %s", q.Kind, c.Pause, c.Steps[c.Pause].Op, c.Site, r.out)
		}
		if r.duringPause {
			early++
			if r.out != before[i] {
				return res.failf("query %s returned while the writer was suspended inside step %d (%s) at %s#%d with %q; the state before the step answers %q (after the step: %q): it observed a half-applied block",
					q.Kind, c.Pause, c.Steps[c.Pause].Op, c.Site, c.Occ, r.out, before[i], afterS[i])
			}
			continue
		}
		if !c12Matches(q.Kind, r.out, before[i], afterS[i]) && !(second && c12Matches(q.Kind, r.out, afterS[i], final[i])) {
			return res.failf("query %s concurrent with step %d (%s, writer suspended at %s#%d) returned %q; before the step the answer is %q, after it %q",
				q.Kind, c.Pause, c.Steps[c.Pause].Op, c.Site, c.Occ, r.out, before[i], afterS[i])
		}
	}
	// the final state must be the sequential one
	for i, q := range rq {
		if got := evalQuery(m, q); got != final[i] {
			return res.failf("after step %d ran concurrently with the queries (second writer: %v), query %s answers %q, sequentially it answers %q", c.Pause, second, c.Queries[i].Kind, got, final[i])
		}
	}
	if reached {
		res.class("site-reached:" + c.Site)
		res.count("queries-started-during-pause", len(rq))
		res.count("queries-finished-during-pause", early)
		res.NonTrivial = true
	} else {
		res.class("site-not-reached")
	}
	return res
}

// c12Matches: a gethash query is several GetHash calls, each atomic on its own: every element must
// come from the before- or the after-answer. Everything else is one call.
func c12Matches(kind, got, a, b string) bool {
	if got == a || got == b {
		return true
	}
	if !isMultiCall(kind) {
		return false
	}
	g, x, y := strings.Fields(got), strings.Fields(a), strings.Fields(b)
	if len(g) != len(x) || len(g) != len(y) {
		return false
	}
	for i := range g {
		if g[i] != x[i] && g[i] != y[i] {
			return false
		}
	}
	return true
}

func runC12Stress(c C12Case, rq []c12Resolved, ans [][]string, calls []func(in *Inst) error, extra []c12Resolved, finalF *model.Forest, finalTracked []int, res *Result) *Result {
	n := len(c.Steps)
	if c.Readers < 1 || c.Readers > 64 {
		return res.failf("case error: readers %d", c.Readers)
	}
	if c.Procs > 0 {
		defer runtime.GOMAXPROCS(runtime.GOMAXPROCS(c.Procs))
	}
	inst := newInst(c.Cfg)
	m := inst.M
	u.VerifSetPoint(func(string) { c12Progress.Add(1) })
	secondWriter := len(extra) > 0
	// with a second writer remembering further leaves the stored set of a partial forest no longer
	// follows the sequential replica: readers then only ask storage-independent questions
	storageFree := func(kind string) bool {
		switch kind {
		case "roots", "stump", "numleaves", "treerows", "verify", "writefail":
			return true
		case "prove", "leafpos", "leafposs":
			return c.Cfg.Full
		}
		return false
	}
	var done atomic.Int64 // completed writer steps
	var ops atomic.Int64  // reader operations
	var stop atomic.Bool  // writer finished
	var firstErr atomic.Pointer[string]
	var wg sync.WaitGroup
	for r := 0; r < c.Readers; r++ {
		wg.Add(1)
		go func(r int) {
			defer wg.Done()
			i := r % len(rq)
			extra := 0
			for {
				if stop.Load() {
					extra++
					if extra > len(rq) {
						return
					}
				}
				if secondWriter && !storageFree(rq[i].kind) {
					i = (i + 1) % len(rq)
					ops.Add(1)
					continue
				}
				a := done.Load()
				out := evalQuery(m, rq[i])
				b := done.Load()
				ops.Add(1)
				c12Progress.Add(1)
				hi := b + 1
				if hi > int64(n) {
					hi = int64(n)
				}
				ok := false
				if isMultiCall(rq[i].kind) {
					// element-wise: each element from some state of the window
					g := strings.Fields(out)
					ok = true
					for e := range g {
						found := false
						for k := a; k <= hi; k++ {
							x := strings.Fields(ans[k][i])
							if e < len(x) && x[e] == g[e] {
								found = true
							}
						}
						ok = ok && found
					}
				} else {
					for k := a; k <= hi; k++ {
						if ans[k][i] == out {
							ok = true
						}
					}
				}
				if !ok {
					var want []string
					for k := a; k <= hi; k++ {
						want = append(want, fmt.Sprintf("S%d:%q", k, ans[k][i]))
					}
					msg := fmt.Sprintf("reader %d: query %s returned %q while the writer had completed between %d and %d steps; whole-block answers in that window: %v", r, rq[i].kind, out, a, b, want)
					firstErr.CompareAndSwap(nil, &msg)
					return
				}
				i = (i + 1) % len(rq)
			}
		}(r)
	}
	var werr [2]error
	var secondCalls, secondOK atomic.Int64
	if secondWriter {
		wg.Add(1)
		go func() {
			defer wg.Done()
			for k := 0; !stop.Load(); k++ {
				x := extra[k%len(extra)]
				func() {
					defer func() {
						if p := recover(); p != nil {
							msg := fmt.Sprintf("second writer: Verify(remember=true) panicked: %v", p)
							firstErr.CompareAndSwap(nil, &msg)
						}
					}()
					if err := m.Verify(cloneHashes(x.hashes), cloneProof(x.proof), true); err == nil {
						secondOK.Add(1)
					}
				}()
				secondCalls.Add(1)
				ops.Add(1)
				c12Progress.Add(1)
				runtime.Gosched()
			}
		}()
	}
	wdone := make(chan struct{})
	go func() {
		defer close(wdone)
		for i, st := range c.Steps {
			target := ops.Load() + int64(c.Gap)
			for spins := 0; ops.Load() < target && firstErr.Load() == nil && spins < 200000; spins++ {
				runtime.Gosched()
			}
			_ = st
			if err := calls[i](inst); err != nil {
				werr = [2]error{nil, err}
				return
			}
			done.Add(1)
			c12Progress.Add(1)
		}
	}()
	if !c12Wait(wdone) {
		return c12Stalled(res, "the writer (stress)")
	}
	stop.Store(true)
	rd := make(chan struct{})
	go func() { wg.Wait(); close(rd) }()
	if !c12Wait(rd) {
		return c12Stalled(res, "the readers (stress)")
	}
	if e := firstErr.Load(); e != nil {
		return res.failf("%s", *e)
	}
	if werr[0] != nil || werr[1] != nil {
		res.class("setup-failed")
		return res
	}
	if secondWriter {
		// whatever the interleaving of the script with the second writer's Verify(remember) calls was,
		// the forest must still be the final state of the script: model roots, only true hashes stored,
		// every leaf the script remembered still provable (what else got remembered is not asserted)
		if werr[0] == nil && werr[1] == nil {
			if c.Cfg.Full {
				if err := checkFullForest(inst, finalF, nil, true); err != nil {
					return res.failf("after the script ran concurrently with %d Verify(remember=true) calls of a second goroutine (%d accepted): %v", secondCalls.Load(), secondOK.Load(), err)
				}
			} else if err := checkPartialForest(inst, finalF, finalTracked, false); err != nil {
				return res.failf("after the script ran concurrently with %d Verify(remember=true) calls of a second goroutine (%d accepted): %v", secondCalls.Load(), secondOK.Load(), err)
			}
		}
		res.count("second-writer-verify-calls", int(secondCalls.Load()))
		res.count("second-writer-verify-accepted", int(secondOK.Load()))
	}
	for i, q := range rq {
		if secondWriter && !storageFree(q.kind) {
			continue
		}
		if got := evalQuery(m, q); got != ans[n][i] {
			return res.failf("after the concurrent run query %s answers %q, sequentially %q", q.kind, got, ans[n][i])
		}
	}
	res.count("stress-reader-ops", int(ops.Load()))
	res.NonTrivial = ops.Load() > int64(len(rq))
	return res
}

// curGID returns the current goroutine's id (parsed from the stack header); used only to make the
// pause hook react to the writer goroutine and not to a reader that happens to pass a hook site.
func curGID() int64 {
	var buf [64]byte
	s := string(buf[:runtime.Stack(buf[:], false)])
	s = strings.TrimPrefix(s, "goroutine ")
	var id int64
	fmt.Sscanf(s, "%d", &id)
	return id
}

func TestC12(t *testing.T) {
	runSpec(t, Spec[C12Case]{ID: "C12", Gen: genC12, Run: runC12})
}

package props

// C05 - an accepted block is applied identically by every implementation, for every accepted
// encoding of the proof (any target order, junk tail, assembled proofs, cached proofs).

import (
	"fmt"
	"sort"
	"testing"

	u "github.com/utreexo/utreexo"
	"pgregory.net/rapid"
	"verifharness/model"
)

type C05Case struct {
	Blocks []Block `json:"blocks"`
	Maps   []Cfg   `json:"maps"` // [0] full, [1] partial
	Del    []int   `json:"del"`  // slots deleted by the block under test, request order
	Enc    string  `json:"enc"`  // canonical | permuted | junk | addproof | subset | cached
	Junk   int     `json:"junk,omitempty"`
	Split  int     `json:"split,omitempty"` // addproof: Del[:Split] proven by A, Del[Split:] by B
	Over   int     `json:"over,omitempty"`  // addproof: Del[Split-Over:Split] proven by both
	Super  []int   `json:"super,omitempty"` // subset: further live slots of the larger proof
	Add    int     `json:"add,omitempty"`
	Rem    []int   `json:"rem,omitempty"`
	// FullVerify: also call Verify(remember=true) on the full map forest before Modify
	FullVerify bool   `json:"fullverify,omitempty"`
	Next       *Block `json:"next,omitempty"` // an honest follow-up block
	// Share: 0 = every call gets fresh copies; k>0 = the same slices go to every implementation, applied in order permutation k-1
	Share int `json:"share,omitempty"`
	// Reorg: after the accepted block every forest is taken back with Undo (record: the block's targets
	// and hashes as they were handed over, the canonical proof hashes; a full map forest gets the targets
	// only) and this other honest block, drawn on the state BEFORE the accepted one, is applied instead:
	// an accepted block must also be un-applied identically. Replaces Next.
	Reorg *Block `json:"reorg,omitempty"`
}

func genC05(t *rapid.T) C05Case {
	lim := genLimitsGiant(t)
	blocks, f := genStateBlocks(t, lim)
	addPrunes(t, blocks)
	c := C05Case{Blocks: blocks}
	full, part := genMapCfg(t, "full"), genMapCfg(t, "part")
	full.Full, part.Full = true, false
	c.Maps = []Cfg{full, part}
	c.Enc = rapid.SampledFrom([]string{"canonical", "permuted", "permuted", "junk", "junk", "addproof", "subset", "cached", "cached"}).Draw(t, "enc")
	live := f.Live()
	if len(live) == 0 {
		c.Enc = "canonical"
		c.Add = 1
		return c
	}
	if c.Enc == "cached" {
		// targets must be leaves the light client remembered
		var cached []int
		n := 0
		for _, b := range blocks {
			for _, r := range b.Rem {
				if !f.Dead[n+r] {
					cached = append(cached, n+r)
				}
			}
			n += b.Add
		}
		if len(cached) == 0 {
			c.Enc = "permuted"
		} else {
			c.Del = subsetP(t, cached, 2, 3, "cdel")
			if len(c.Del) == 0 {
				c.Del = cached[:1]
			}
			c.Del = permute(t, c.Del, "cperm")
		}
	}
	if c.Enc != "cached" {
		c.Del = genRequest(t, f)
	}
	switch c.Enc {
	case "junk":
		c.Junk = rapid.IntRange(1, 3).Draw(t, "junk")
	case "addproof":
		c.Split = rapid.IntRange(0, len(c.Del)).Draw(t, "split")
		c.Over = rapid.IntRange(0, c.Split).Draw(t, "over")
		if c.Over > len(c.Del)-c.Split+c.Over {
			c.Over = 0
		}
	case "subset":
		in := map[int]bool{}
		for _, d := range c.Del {
			in[d] = true
		}
		for _, s := range live {
			if !in[s] && rapid.IntRange(0, 2).Draw(t, "super") == 0 {
				c.Super = append(c.Super, s)
			}
		}
	}
	c.Add, _ = genAdd(t, f.N(), lim)
	for i := 0; i < c.Add; i++ {
		if rapid.Bool().Draw(t, "rem") {
			c.Rem = append(c.Rem, i)
		}
	}
	c.FullVerify = rapid.Bool().Draw(t, "fullverify")
	if rapid.Bool().Draw(t, "share") {
		c.Share = rapid.IntRange(1, 24).Draw(t, "order")
	}
	if rapid.IntRange(0, 3).Draw(t, "reorg") == 0 {
		small := lim
		if small.maxAdd > 60 {
			small.maxAdd = 60
		}
		rb := genBlock(t, f.Clone(), small, true)
		rb.Salt = 5
		c.Reorg = &rb
		return c
	}
	g := f.Clone()
	applyToModel(g, Block{Del: c.Del, Add: c.Add})
	if rapid.Bool().Draw(t, "next") {
		nb := genBlock(t, g, lim, true)
		c.Next = &nb
	}
	return c
}

// lightClient is the cached-proof holder of C07, used here only to produce a proof encoding.
type lightClient struct {
	stump  u.Stump
	proof  u.Proof
	hashes []Hash
	calls  int
	// what the last update handed to Proof.Update: another wallet can be fed the very same slices and
	// the very same UpdateData value (follow)
	lastAdd []Hash
	lastTgt []uint64
	lastUD  u.UpdateData
}

// follow updates this client's cached proof with the block data and the UpdateData that ANOTHER
// client has just used (one node serving several wallets): whatever Proof.Update did to them in the
// first wallet's call shows in this wallet's proof.
func (lc *lightClient) follow(src *lightClient, rem []int) error {
	r32 := make([]uint32, len(rem))
	for i, r := range rem {
		r32[i] = uint32(r)
	}
	ud := src.lastUD
	if src.calls%2 == 0 {
		// every other block the UpdateData is rebuilt from its exported fields ("all the data needed"), as a
		// client that received it over the wire holds it: fresh slices, nothing unexported carried along
		ud = u.UpdateData{
			ToDestroy:     cloneU64(src.lastUD.ToDestroy),
			PrevNumLeaves: src.lastUD.PrevNumLeaves,
			NewDelHash:    cloneHashes(src.lastUD.NewDelHash),
			NewDelPos:     cloneU64(src.lastUD.NewDelPos),
			NewAddHash:    cloneHashes(src.lastUD.NewAddHash),
			NewAddPos:     cloneU64(src.lastUD.NewAddPos),
		}
	}
	var err error
	lc.hashes, err = lc.proof.Update(lc.hashes, src.lastAdd, src.lastTgt, r32, ud)
	return err
}

// update feeds one block to the stump and the cached proof. The block data is laid out differently
// from call to call (three exact-size copies / empty lists as nil / deletions and additions as the two
// halves of one array - see c11Args), and Proof.Update is handed the very slices Stump.Update has just
// seen, as a caller holding one copy of the block does.
func (lc *lightClient) update(delH []Hash, blockProof u.Proof, addH []Hash, rem []int) error {
	layout := []string{"", "nil", "onebuf"}[lc.calls%3]
	lc.calls++
	dArg, aArg, pArg, _ := c11Args(layout, delH, addH, blockProof)
	ud, err := lc.stump.Update(dArg, aArg, pArg)
	if err != nil {
		return err
	}
	var r32 []uint32
	if len(rem) > 0 || layout != "nil" {
		r32 = make([]uint32, len(rem))
	}
	for i, r := range rem {
		r32[i] = uint32(r)
	}
	lc.lastAdd, lc.lastTgt, lc.lastUD = aArg, pArg.Targets, ud
	lc.hashes, err = lc.proof.Update(lc.hashes, aArg, pArg.Targets, r32, ud)
	return err
}

func runC05(c C05Case) *Result {
	res := &Result{}
	if len(c.Maps) != 2 || !c.Maps[0].Full || c.Maps[1].Full {
		return res.failf("case error: maps must be [full, partial]")
	}
	ls := newLockstep([]Cfg{{Kind: "stump"}, {Kind: "pollard"}, c.Maps[0], c.Maps[1]})
	lc := &lightClient{}
	for i, b := range c.Blocks {
		v := ls.f.View()
		delH := ls.f.HashesOf(b.Del)
		_, addH := mkLeaves(len(ls.f.Hashes), b.Add, nil)
		if c.Enc == "cached" {
			if err := lc.update(delH, v.Proof(delH), addH, b.Rem); err != nil {
				res.class("setup-failed")
				return res
			}
		}
		if err := ls.step(i, b); err != nil {
			res.class("setup-failed")
			return res
		}
	}
	f := ls.f
	v := f.View()
	for _, s := range c.Del {
		if s < 0 || s >= len(f.Dead) || f.Dead[s] {
			return res.failf("case error: slot %d not live", s)
		}
	}
	res.class("enc:" + c.Enc)
	hs := f.HashesOf(c.Del)
	canon := v.Proof(hs)
	var encH []Hash
	var enc u.Proof
	switch c.Enc {
	case "canonical", "permuted":
		encH, enc = hs, canon // the permutation is already in c.Del's order
	case "junk":
		encH, enc = hs, cloneProof(canon)
		for i := 0; i < c.Junk; i++ {
			enc.Proof = append(enc.Proof, model.FreshHash(50+i))
		}
	case "addproof":
		if c.Split < 0 || c.Split > len(c.Del) || c.Over < 0 || c.Over > c.Split {
			return res.failf("case error: bad split")
		}
		a := c.Del[:c.Split]
		b := c.Del[c.Split-c.Over:]
		ha, hb := f.HashesOf(a), f.HashesOf(b)
		encH, enc = u.AddProof(v.Proof(ha), v.Proof(hb), ha, hb, v.N)
	case "subset":
		all := append(append([]int(nil), c.Del...), c.Super...)
		sort.Slice(all, func(i, j int) bool { return v.SlotPos[all[i]] < v.SlotPos[all[j]] }) // position-sorted larger proof
		hall := f.HashesOf(all)
		big := v.Proof(hall)
		var err error
		encH, enc, err = u.GetProofSubset(big, hall, cloneU64(canon.Targets), v.N)
		if err != nil {
			res.class("precondition_failed:subset-error")
			return res
		}
	case "cached":
		// restrict the light client's cached proof to the wanted leaves
		pos := map[Hash]uint64{}
		for i, h := range lc.hashes {
			if i < len(lc.proof.Targets) {
				pos[h] = lc.proof.Targets[i]
			}
		}
		wants := make([]uint64, 0, len(hs))
		for _, h := range hs {
			p, ok := pos[h]
			if !ok {
				res.class("precondition_failed:cached-leaf-missing")
				return res
			}
			wants = append(wants, p)
		}
		// GetProofSubset wants the proof's hashes in the proof's target order
		var err error
		encH, enc, err = u.GetProofSubset(cloneProof(lc.proof), cloneHashes(lc.hashes), wants, v.N)
		if err != nil {
			res.class("precondition_failed:cached-subset-error")
			return res
		}
	default:
		return res.failf("case error: unknown encoding %q", c.Enc)
	}

	// precondition, checked rather than assumed: Verify accepts, and the targets are distinct
	// positions of live leaves carrying exactly those leaves' hashes.
	stump := ls.insts[0].S
	if _, err := u.Verify(copyStump(*stump), cloneHashes(encH), cloneProof(enc)); err != nil {
		res.class("precondition_failed:" + c.Enc + ":verify-rejects")
		return res
	}
	if len(encH) != len(enc.Targets) {
		res.class("precondition_failed:" + c.Enc + ":length")
		return res
	}
	seen := map[uint64]bool{}
	var slots []int
	for i, tg := range enc.Targets {
		n := v.NodeAt[tg]
		if n == nil || !n.IsLeaf() || seen[tg] || n.Hash != encH[i] {
			res.class("precondition_failed:" + c.Enc + ":not-distinct-live-leaves")
			return res
		}
		seen[tg] = true
		slots = append(slots, n.Slot)
	}
	res.NonTrivial = c.Enc != "canonical" && len(slots) >= 2
	res.count("targets", len(slots))

	// apply the very same block everywhere
	adds, _ := mkLeaves(len(f.Hashes), c.Add, func(k int) bool { return inSet(c.Rem, k) })
	pol, mfull, mpart := ls.insts[1], ls.insts[2], ls.insts[3]
	addH := make([]Hash, len(adds))
	for i, a := range adds {
		addH[i] = a.Hash
	}
	// Share > 0: the very same slices (no defensive copies) are handed to every implementation,
	// in the order given by permutation number Share-1 of [stump, pollard, full map, partial map]:
	// the property says the block "can be applied to several instances" as it is.
	cpH := func(h []Hash) []Hash {
		if c.Share > 0 {
			return h
		}
		return cloneHashes(h)
	}
	cpP := func(p u.Proof) u.Proof {
		if c.Share > 0 {
			return p
		}
		return cloneProof(p)
	}
	cpL := func(l []u.Leaf) []u.Leaf {
		if c.Share > 0 {
			return l
		}
		return append([]u.Leaf(nil), l...)
	}
	shared := ""
	if c.Share > 0 {
		shared = " [same slices handed to every implementation]"
		res.class("shared-slices")
	}
	steps := []func() error{
		func() error {
			if _, err := stump.Update(cpH(encH), cpH(addH), cpP(enc)); err != nil {
				return fmt.Errorf("Stump.Update rejects a block that Verify accepts (%s encoding, targets %v)%s: %v", c.Enc, enc.Targets, shared, err)
			}
			return nil
		},
		func() error {
			if err := pol.P.Modify(cpL(adds), cpH(encH), cpP(enc)); err != nil {
				return fmt.Errorf("Pollard.Modify fails on an accepted block (%s encoding, targets %v)%s: %v", c.Enc, enc.Targets, shared, err)
			}
			return nil
		},
		func() error {
			if c.FullVerify && len(encH) > 0 {
				if err := mfull.M.Verify(cpH(encH), cpP(enc), true); err != nil {
					return fmt.Errorf("full %s Verify(remember) rejects a block that Verify accepts (%s encoding)%s: %v", mfull.Cfg, c.Enc, shared, err)
				}
			}
			if err := mfull.M.Modify(cpL(adds), cpH(encH), cpP(enc)); err != nil {
				return fmt.Errorf("full %s Modify fails on an accepted block (%s encoding, targets %v)%s: %v", mfull.Cfg, c.Enc, enc.Targets, shared, err)
			}
			return nil
		},
		func() error {
			needVerify := len(encH) > 0
			if needVerify && mpart.Cfg.Direct {
				// a wallet that already remembers every deleted leaf applies the block directly
				needVerify = false
				for _, h := range encH {
					if _, ok := mpart.M.CachedLeaves.Get(h); !ok {
						needVerify = true
					}
				}
				if !needVerify {
					res.class("partial-modify-without-verify")
				}
			}
			if needVerify {
				if err := mpart.M.Verify(cpH(encH), cpP(enc), true); err != nil {
					return fmt.Errorf("partial %s Verify(remember) rejects a block that Verify accepts (%s encoding)%s: %v", mpart.Cfg, c.Enc, shared, err)
				}
			}
			if err := mpart.M.Modify(cpL(adds), cpH(encH), cpP(enc)); err != nil {
				return fmt.Errorf("partial %s Modify fails on an accepted block (%s encoding, targets %v)%s: %v", mpart.Cfg, c.Enc, enc.Targets, shared, err)
			}
			return nil
		},
	}
	order := []int{0, 1, 2, 3}
	if c.Share > 1 {
		k := (c.Share - 1) % 24
		pool := []int{0, 1, 2, 3}
		order = order[:0]
		for n := 4; n >= 1; n-- {
			f := 1
			for i := 2; i < n; i++ {
				f *= i
			}
			idx := k / f
			k %= f
			order = append(order, pool[idx])
			pool = append(pool[:idx:idx], pool[idx+1:]...)
		}
	}
	before := f.Clone()
	stumpBefore := copyStump(*stump)
	for _, i := range order {
		if err := steps[i](); err != nil {
			return res.failf("%v", err)
		}
	}
	applyToModel(f, Block{Del: slots, Add: c.Add})
	v2 := f.View()
	for _, in := range ls.insts {
		if err := in.checkRoots(v2); err != nil {
			return res.failf("after applying the accepted block (%s encoding, targets %v, %d proof hashes, %d adds): %v", c.Enc, enc.Targets, len(enc.Proof), c.Add, err)
		}
	}
	if c.Reorg != nil {
		res.class("reorganised")
		for _, in := range ls.insts[1:] {
			ph := canon.Proof
			if in.M != nil && in.M.Full {
				ph = nil // a full forest rebuilds the proof hashes itself
			}
			in.ar.next()
			if err := in.Acc().Undo(uint64(c.Add), in.ar.proofTH(enc.Targets, ph), in.ar.hashes(encH), in.ar.hashes(v.Roots)); err != nil {
				return res.failf("%s: Undo of the accepted %s-encoded block (targets %v, %d adds) failed: %v", in.Cfg, c.Enc, enc.Targets, c.Add, err)
			}
		}
		*stump = stumpBefore
		ls.f = before
		for _, in := range ls.insts {
			if err := in.checkRoots(v); err != nil {
				return res.failf("after undoing the accepted %s-encoded block: %v", c.Enc, err)
			}
		}
		if err := ls.step(len(c.Blocks)+1, *c.Reorg); err != nil {
			return res.failf("another honest block applied after the accepted %s-encoded block (targets %v) was undone: %v", c.Enc, enc.Targets, err)
		}
		return res
	}
	if c.Next != nil {
		res.class("followup")
		if err := ls.step(len(c.Blocks)+1, *c.Next); err != nil {
			return res.failf("honest block after the accepted %s-encoded block: %v", c.Enc, err)
		}
	}
	return res
}

func TestC05(t *testing.T) {
	runSpec(t, Spec[C05Case]{ID: "C05", Gen: genC05, Run: runC05})
}

var _ = fmt.Sprint

package props

// C02 - every live leaf set is provable; proofs are canonical, in request order, identical
// between provers, and verify everywhere.

import (
	"fmt"
	"sort"
	"testing"

	u "github.com/utreexo/utreexo"
	"pgregory.net/rapid"
	"verifharness/model"
)

type C02Case struct {
	Blocks []Block   `json:"blocks"`
	Maps   []Cfg     `json:"maps"` // [0] full prover, [1] partial prover, rest verifiers
	Reqs   [][][]int `json:"reqs"` // Reqs[i] = requests (slot lists, request order) made after block i
}

// genRequest draws a non-empty list of live slots in some order, biased to the shapes that matter.
func genRequest(t *rapid.T, f *model.Forest) []int {
	live := f.Live()
	if len(live) == 0 {
		return nil
	}
	v := f.View()
	var req []int
	switch rapid.SampledFrom([]string{"one", "siblings", "all", "subset", "pertree", "rows", "two"}).Draw(t, "reqmode") {
	case "one":
		req = []int{rapid.SampledFrom(live).Draw(t, "r1")}
	case "two":
		req = []int{rapid.SampledFrom(live).Draw(t, "r1"), rapid.SampledFrom(live).Draw(t, "r2")}
		if req[0] == req[1] {
			req = req[:1]
		}
	case "siblings":
		for _, s := range live {
			p := v.SlotPos[s]
			if n := v.NodeAt[p^1]; p&1 == 0 && n != nil && n.IsLeaf() && rapid.Bool().Draw(t, "sib") {
				req = append(req, s, n.Slot)
			}
		}
	case "all":
		req = live
	case "subset":
		req = subsetP(t, live, 1, 3, "sub")
	case "pertree":
		for _, tr := range v.Trees {
			var in []int
			for s := tr.First; s < tr.First+(uint64(1)<<tr.Height); s++ {
				if !f.Dead[s] {
					in = append(in, int(s))
				}
			}
			if len(in) > 0 {
				req = append(req, rapid.SampledFrom(in).Draw(t, "pt"))
			}
		}
	case "rows":
		byRow := map[uint8][]int{}
		for _, s := range live {
			r := v.NodeAt[v.SlotPos[s]].Row
			byRow[r] = append(byRow[r], s)
		}
		var rows []int
		for r := range byRow {
			rows = append(rows, int(r))
		}
		sort.Ints(rows)
		for _, r := range rows {
			req = append(req, rapid.SampledFrom(byRow[uint8(r)]).Draw(t, "row"))
		}
	}
	if len(req) == 0 {
		req = []int{rapid.SampledFrom(live).Draw(t, "rf")}
	}
	return permute(t, req, "reqperm")
}

func genC02(t *rapid.T) C02Case {
	lim := genLimitsGiant(t)
	f := &model.Forest{}
	n := rapid.IntRange(1, lim.maxBlocks).Draw(t, "nblocks")
	c := C02Case{}
	for i := 0; i < n; i++ {
		c.Blocks = append(c.Blocks, genBlock(t, f, lim, true))
		var reqs [][]int
		if f.NumLive() > 0 {
			k := rapid.IntRange(0, 3).Draw(t, "nreq")
			if i == n-1 && k == 0 {
				k = 1
			}
			for j := 0; j < k; j++ {
				reqs = append(reqs, genRequest(t, f))
			}
		}
		c.Reqs = append(c.Reqs, reqs)
	}
	addPrunes(t, c.Blocks)
	full := genMapCfg(t, "full")
	full.Full = true
	part := genMapCfg(t, "part")
	part.Full = false
	extra := genMapCfg(t, "extra")
	c.Maps = []Cfg{full, part, extra}
	return c
}

func runC02(c C02Case) *Result {
	res := &Result{}
	if len(c.Maps) < 2 || !c.Maps[0].Full || c.Maps[1].Full {
		return res.failf("case error: maps[0] must be full and maps[1] partial")
	}
	cfgs := append([]Cfg{{Kind: "stump"}, {Kind: "pollard"}}, c.Maps...)
	ls := newLockstep(cfgs)
	stump, pol, mfull, mpart := ls.insts[0], ls.insts[1], ls.insts[2], ls.insts[3]
	remembered := map[int]bool{} // slots the partial forest was asked to remember
	for i, b := range c.Blocks {
		first := len(ls.f.Hashes)
		if err := ls.step(i, b); err != nil {
			return res.failf("%v", err)
		}
		for _, d := range b.Prune {
			delete(remembered, d)
		}
		for _, d := range b.Learn {
			remembered[d] = true
		}
		if len(b.Learn) > 0 {
			res.count("blocks_after_learning_live_leaves("+b.LearnHow+")", 1)
		}
		for _, d := range b.Del {
			delete(remembered, d)
		}
		for _, r := range b.Rem {
			remembered[first+r] = true
		}
		if len(b.Prune) > 0 {
			res.count("blocks_after_prune", 1)
		}
		if i >= len(c.Reqs) {
			continue
		}
		v := ls.f.View()
		for _, req := range c.Reqs[i] {
			if len(req) == 0 {
				continue
			}
			for _, s := range req {
				if s < 0 || s >= len(ls.f.Dead) || ls.f.Dead[s] {
					return res.failf("case error: request names slot %d which is not live after block %d", s, i)
				}
			}
			hs := ls.f.HashesOf(req)
			want := v.Proof(hs)
			res.count("requests", 1)

			// non-trivial rule
			path := v.PathSet(want.Targets)
			omitted, high := false, false
			for p := range path {
				if !v.IsRoot[p] && path[p^1] {
					omitted = true
				}
			}
			for _, tg := range want.Targets {
				if v.NodeAt[tg].Row >= 1 {
					high = true
				}
			}
			if len(req) >= 2 && (omitted || high) {
				res.NonTrivial = true
				res.count("nontrivial_requests", 1)
			}
			if omitted {
				res.count("req_with_computable_sibling", 1)
			}
			if high {
				res.count("req_with_target_above_row0", 1)
			}

			gotP, err := pol.P.Prove(cloneHashes(hs))
			if err != nil {
				return res.failf("after block %d: Pollard.Prove(%v) failed: %v", i, req, err)
			}
			if !eqProof(gotP, want) {
				return res.failf("after block %d: Pollard.Prove(slots %v) = %s, canonical %s", i, req, proofStr(gotP), proofStr(want))
			}
			gotM, err := mfull.M.Prove(cloneHashes(hs))
			if err != nil {
				return res.failf("after block %d: full %s Prove(%v) failed: %v", i, mfull.Cfg, req, err)
			}
			if !eqProof(gotM, want) {
				return res.failf("after block %d: full %s Prove(slots %v) = %s, canonical %s", i, mfull.Cfg, req, proofStr(gotM), proofStr(want))
			}
			// partial prover, restricted to what it tracks
			var preq []int
			for _, s := range req {
				if remembered[s] {
					preq = append(preq, s)
				}
			}
			if len(preq) > 0 {
				phs := ls.f.HashesOf(preq)
				pwant := v.Proof(phs)
				gotPP, err := mpart.M.Prove(cloneHashes(phs))
				if err != nil {
					return res.failf("after block %d: partial %s Prove(remembered slots %v) failed: %v", i, mpart.Cfg, preq, err)
				}
				if !eqProof(gotPP, pwant) {
					return res.failf("after block %d: partial %s Prove(slots %v) = %s, canonical %s", i, mpart.Cfg, preq, proofStr(gotPP), proofStr(pwant))
				}
				res.count("partial_requests", 1)
			}
			if len(preq) < len(req) {
				// the request as it stands names leaves the partial forest does not remember: it is refused, or
				// answered with the canonical proof - never "success" with something else
				var gp u.Proof
				var gerr error
				panicked := false
				func() {
					defer func() {
						if recover() != nil {
							panicked = true
						}
					}()
					gp, gerr = mpart.M.Prove(cloneHashes(hs))
				}()
				if !panicked && gerr == nil && !eqProof(gp, want) {
					return res.failf("after block %d: partial %s Prove(slots %v), of which only %v are remembered, reports success with %s; canonical %s", i, mpart.Cfg, req, preq, proofStr(gp), proofStr(want))
				}
				res.count("partial_requests_naming_unremembered_leaves", 1)
			}
			// every verifier accepts the canonical proof
			st := u.Stump{Roots: cloneHashes(stump.S.Roots), NumLeaves: stump.S.NumLeaves}
			idx, err := u.Verify(st, cloneHashes(hs), cloneProof(want))
			if err != nil {
				return res.failf("after block %d: Verify rejects the canonical proof of slots %v: %v", i, req, err)
			}
			gotIdx := append([]int(nil), idx...)
			sort.Ints(gotIdx)
			wantIdx := v.TreesWith(want.Targets)
			if fmt.Sprint(gotIdx) != fmt.Sprint(wantIdx) {
				return res.failf("after block %d: Verify reports trees %v for slots %v, targets are in trees %v", i, idx, req, wantIdx)
			}
			if err := pol.P.Verify(cloneHashes(hs), cloneProof(want), false); err != nil {
				return res.failf("after block %d: Pollard.Verify rejects the canonical proof of slots %v: %v", i, req, err)
			}
			for _, in := range ls.insts[2:] {
				if err := in.M.Verify(cloneHashes(hs), cloneProof(want), false); err != nil {
					return res.failf("after block %d: %s Verify rejects the canonical proof of slots %v: %v", i, in.Cfg, req, err)
				}
			}
		}
	}
	return res
}

func TestC02(t *testing.T) {
	runSpec(t, Spec[C02Case]{ID: "C02", Gen: genC02, Run: runC02, Pre: preScaleC02})
}

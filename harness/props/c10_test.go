package props

// C10 - position and hash look-ups tell the truth.

import (
	"bytes"
	"fmt"
	"sort"
	"testing"

	u "github.com/utreexo/utreexo"
	"pgregory.net/rapid"
	"verifharness/model"
)

type C10Step struct {
	Op  string `json:"op"` // block | undo | verify | restore
	B   *Block `json:"b,omitempty"`
	Set []int  `json:"set,omitempty"`
}

type C10Case struct {
	Cfgs  []Cfg     `json:"cfgs"` // pollard, full map, partial map
	Steps []C10Step `json:"steps"`
}

func genC10(t *rapid.T) C10Case {
	lim := genLimits(t)
	full, part := genMapCfg(t, "full"), genMapCfg(t, "part")
	full.Full, part.Full = true, false
	c := C10Case{Cfgs: []Cfg{{Kind: "pollard"}, full, part}}
	f := &model.Forest{}
	var stack []*model.Forest
	branch := 0
	n := rapid.IntRange(2, lim.maxBlocks+4).Draw(t, "nsteps")
	for i := 0; i < n; i++ {
		op := rapid.SampledFrom([]string{"block", "block", "block", "block", "undo", "verify", "vpp", "restore", "badmodify"}).Draw(t, "op")
		if op == "badmodify" && f.NumLive() == 0 {
			op = "block"
		}
		if op == "undo" && len(stack) == 0 {
			op = "block"
		}
		if (op == "verify" || op == "vpp") && f.NumLive() == 0 {
			op = "block"
		}
		switch op {
		case "block":
			stack = append(stack, f.Clone())
			g := f.Clone()
			b := genBlock(t, g, lim, true)
			b.Salt = branch
			genReuse(t, f, &b)
			applyToModel(f, b)
			c.Steps = append(c.Steps, C10Step{Op: "block", B: &b})
		case "undo":
			f = stack[len(stack)-1]
			stack = stack[:len(stack)-1]
			branch++
			c.Steps = append(c.Steps, C10Step{Op: "undo"})
		case "verify", "vpp":
			c.Steps = append(c.Steps, C10Step{Op: op, Set: genRequest(t, f)})
		case "restore":
			c.Steps = append(c.Steps, C10Step{Op: "restore"})
		case "badmodify":
			c.Steps = append(c.Steps, C10Step{Op: "badmodify", Set: genRequest(t, f)})
		}
	}
	return c
}

// probePositions: every position of the layout plus a margin, plus far-away values.
func probePositions(v *model.View) []uint64 {
	var ps []uint64
	top := v.MaxPos() + 9
	if v.R+1 < 63 {
		top = (uint64(2) << v.R) + 8
	}
	for p := uint64(0); p <= top; p++ {
		ps = append(ps, p)
	}
	return append(ps, 1<<32, 1<<32+1, 1<<62, 1<<63, 1<<63+5, ^uint64(0)-1, ^uint64(0))
}

// checkLookups is the C10 oracle for one instance in one state.
func checkLookups(in *Inst, f *model.Forest, tracked []int, others []Hash, res *Result) error {
	v := f.View()
	acc := in.Acc()
	partial := in.M != nil && !in.M.Full
	if partial {
		if err := checkPartialForest(in, f, tracked, false); err != nil {
			return err
		}
	} else {
		if err := checkFullForest(in, f, others, false); err != nil {
			return err
		}
	}
	trackedSet := map[int]bool{}
	for _, s := range tracked {
		trackedSet[s] = true
	}
	// hash look-ups: live leaves, dead leaves, other branches' leaves, fresh values, inner nodes, roots
	var probes []Hash
	var wantPos []uint64
	var wantFound []bool
	add := func(h Hash, pos uint64, found bool) {
		probes = append(probes, h)
		wantPos = append(wantPos, pos)
		wantFound = append(wantFound, found)
	}
	for s, h := range f.Hashes {
		if _, again := v.LeafPos[h]; f.Dead[s] && again {
			continue // spent and re-created with the same hash: judged through its live slot
		}
		if f.Dead[s] {
			add(h, 0, false)
			res.count("probe:dead-leaf", 1)
		} else if !partial || trackedSet[s] {
			add(h, v.SlotPos[s], true)
			res.count("probe:tracked-live-leaf", 1)
		}
		// a live leaf that a partial forest does not track may or may not be known (it may have
		// been verified with remember on an undone branch): nothing is asserted
	}
	for _, h := range others {
		if _, live := v.LeafPos[h]; !live {
			add(h, 0, false)
		}
	}
	for i := 0; i < 3; i++ {
		add(model.FreshHash(900+i), 0, false)
	}
	for _, nd := range v.NodeAt {
		if !nd.IsLeaf() {
			add(nd.Hash, 0, false)
			res.count("probe:inner-node-hash", 1)
		}
	}
	for _, r := range v.Roots {
		if _, isLeaf := v.LeafPos[r]; !isLeaf && r != (Hash{}) {
			add(r, 0, false)
		}
	}
	// the all-zero hash is "never added" - unless the case's sparse leaf is live: the pointer forest keys
	// its leaf map by the first 12 bytes by design, and a question that shares that key with a live
	// leaf is a key collision of the harness's own making (section 11)
	zeroKeyLive := false
	for s, h := range f.Hashes {
		if !f.Dead[s] && [12]byte(h[:12]) == [12]byte{} {
			zeroKeyLive = true
		}
	}
	if !zeroKeyLive {
		add(Hash{}, 0, false)
	} else {
		res.count("probe:zero-hash-skipped-sparse-leaf-live", 1)
	}
	for i, h := range probes {
		p, ok := acc.GetLeafPosition(h)
		if ok != wantFound[i] || (ok && p != wantPos[i]) {
			return fmt.Errorf("%s: GetLeafPosition(%s) = (%d,%v), want (%d,%v) (N=%d)", in.Cfg, shortH(h), p, ok, wantPos[i], wantFound[i], v.N)
		}
	}
	if in.M != nil {
		got := in.M.GetLeafHashPositions(cloneHashes(probes))
		if err := in.checkHeld(); err != nil {
			return err
		}
		if len(got) != len(probes) {
			return fmt.Errorf("%s: GetLeafHashPositions returned %d positions for %d hashes", in.Cfg, len(got), len(probes))
		}
		for i := range probes {
			want := uint64(0)
			if wantFound[i] {
				want = wantPos[i]
			}
			if got[i] != want {
				return fmt.Errorf("%s: GetLeafHashPositions[%d] (%s) = %d, want %d (0 = not found) (N=%d)", in.Cfg, i, shortH(probes[i]), got[i], want, v.N)
			}
		}
		in.hold("GetLeafHashPositions", got, nil)
	}
	// position look-ups
	var vr *model.View
	var required, allowed map[uint64]bool
	if in.M != nil {
		vr = f.ViewR(in.M.TotalRows)
		if partial {
			sort.Ints(tracked)
			rq, al := partialBands(vr, tracked)
			required, allowed = map[uint64]bool{}, map[uint64]bool{}
			for p := range rq {
				if e, ok := model.Translate(p, vr.R, v.R); ok {
					required[e] = true
				}
			}
			for p := range al {
				if e, ok := model.Translate(p, vr.R, v.R); ok {
					allowed[e] = true
				}
			}
		}
	}
	for _, pos := range probePositions(v) {
		g := acc.GetHash(pos)
		w, exists := v.At[pos]
		switch {
		case pos <= v.MaxPos() && exists && (!partial || required[pos]):
			if g != w {
				return fmt.Errorf("%s: GetHash(%d) = %s, the node there has hash %s (N=%d)", in.Cfg, pos, shortH(g), shortH(w), v.N)
			}
		case pos <= v.MaxPos() && exists:
			// partial forest, node exists but need not be stored: the statement says "the true hash when it
			// exists and is stored, zero when not stored" - storedness is read from the exported Nodes map.
			// (Whether it *should* be stored is C09's business and is only counted here.)
			ip, _ := model.Translate(pos, v.R, vr.R)
			_, stored := in.M.Nodes.Get(ip)
			if !allowed[pos] && stored {
				res.count("partial-stores-beyond-needed", 1)
			}
			if stored && g != w {
				return fmt.Errorf("%s: GetHash(%d) = %s, the stored node there has hash %s (N=%d)", in.Cfg, pos, shortH(g), shortH(w), v.N)
			}
			if !stored && g != (Hash{}) {
				return fmt.Errorf("%s: GetHash(%d) = %s for a position that is not stored, want the zero hash (N=%d)", in.Cfg, pos, shortH(g), v.N)
			}
		case pos <= v.MaxPos():
			// no node exists there (outside the forest / vacated)
			res.count("probe:nonexistent-position", 1)
			if g != (Hash{}) {
				return fmt.Errorf("%s: GetHash(%d) = %s where no node exists, want the zero hash (N=%d, rows %d)", in.Cfg, pos, shortH(g), v.N, v.R)
			}
		default:
			// beyond the last position of the external layout. A map forest may read such a value as
			// a position of its own TotalRows layout (the repository's tests do that); anything else is zero.
			res.count("probe:beyond-last-position", 1)
			if g == (Hash{}) {
				break
			}
			if vr != nil {
				if wi, ok := vr.At[pos]; ok && wi == g {
					res.count("map-read-in-own-layout", 1)
					break
				}
			}
			return fmt.Errorf("%s: GetHash(%d) = %s for a position beyond the last one (%d), want the zero hash (N=%d)", in.Cfg, pos, shortH(g), v.MaxPos(), v.N)
		}
	}
	return nil
}

func runC10(c C10Case) *Result {
	res := &Result{}
	var insts []*Inst
	for _, cf := range c.Cfgs {
		if cf.Kind == "stump" {
			return res.failf("case error: stump has no look-ups")
		}
		insts = append(insts, newInst(cf))
	}
	f := &model.Forest{}
	type frame struct {
		before *model.Forest
		b      Block
		delH   []Hash
		proof  u.Proof
		roots  []Hash
	}
	var stack []frame
	tracked := map[int]bool{}
	var everAdded []Hash
	seen := map[Hash]bool{}
	trackedList := func() []int {
		var l []int
		for s := range tracked {
			l = append(l, s)
		}
		sort.Ints(l)
		return l
	}
	anyDel := false
	for i, st := range c.Steps {
		switch st.Op {
		case "block":
			b := *st.B
			for _, s := range b.Del {
				if s < 0 || s >= len(f.Dead) || f.Dead[s] {
					return res.failf("case error: step %d deletes slot %d which is not live", i, s)
				}
			}
			v := f.View()
			delH := f.HashesOf(b.Del)
			proof := v.Proof(delH)
			if err := checkReuse(f, b); err != nil {
				return res.failf("%v", err)
			}
			addH := blockAddHashes(f, b)
			adds := make([]u.Leaf, len(addH))
			for k, h := range addH {
				adds[k] = u.Leaf{Hash: h, Remember: inSet(b.Rem, k)}
			}
			if len(b.Reuse) > 0 {
				res.count("blocks-recreating-spent-leaves", 1)
			}
			stack = append(stack, frame{f.Clone(), b, delH, proof, cloneHashes(v.Roots)})
			for _, in := range insts {
				if err := in.Apply(adds, delH, proof); err != nil {
					res.class("setup-failed")
					return res
				}
			}
			first := len(f.Hashes)
			applyToModel(f, b)
			for _, s := range b.Del {
				delete(tracked, s)
			}
			for k, h := range addH {
				if !seen[h] {
					seen[h] = true
					everAdded = append(everAdded, h)
				}
				if inSet(b.Rem, k) {
					tracked[first+k] = true
				}
			}
			anyDel = anyDel || len(b.Del) > 0
		case "undo":
			if len(stack) == 0 {
				return res.failf("case error: undo with empty history")
			}
			fr := stack[len(stack)-1]
			stack = stack[:len(stack)-1]
			for _, in := range insts {
				in.ar.next()
				if err := in.Acc().Undo(uint64(fr.b.Add), in.ar.proof(fr.proof), in.ar.hashes(fr.delH), in.ar.hashes(fr.roots)); err != nil {
					res.class("setup-failed")
					return res
				}
			}
			f = fr.before
			for s := range tracked {
				if s >= len(f.Hashes) {
					delete(tracked, s)
				}
			}
			for _, s := range fr.b.Del {
				tracked[s] = true
			}
		case "verify", "vpp":
			for _, s := range st.Set {
				if s < 0 || s >= len(f.Dead) || f.Dead[s] {
					return res.failf("case error: step %d names slot %d which is not live", i, s)
				}
			}
			hs := f.HashesOf(st.Set)
			vw := f.View()
			proof := vw.Proof(hs)
			for _, in := range insts {
				var err error
				if st.Op == "vpp" && in.M != nil {
					// the partial-proof way of remembering: only what GetMissingPositions asks for is handed over
					err = vppRemember(in.M, &in.ar, vw, proof.Targets, hs)
				} else {
					in.ar.next()
					err = in.Acc().Verify(in.ar.hashes(hs), in.ar.proof(proof), true)
				}
				if err != nil {
					res.class("setup-failed")
					return res
				}
			}
			for _, s := range st.Set {
				tracked[s] = true
			}
		case "badmodify":
			// a block the map forests must refuse: live leaves followed by a hash that is no leaf. Look-ups
			// afterwards must be what they were (the leaves are still live and tracked)
			for _, s := range st.Set {
				if s < 0 || s >= len(f.Dead) || f.Dead[s] {
					return res.failf("case error: step %d names slot %d which is not live", i, s)
				}
			}
			{
				v := f.View()
				hs := append(f.HashesOf(st.Set), model.FreshHash(600+i))
				proof := v.Proof(f.HashesOf(st.Set))
				proof.Targets = append(proof.Targets, v.MaxPos())
				for _, in := range insts {
					if in.M == nil {
						continue
					}
					known := true
					for _, h := range hs[:len(hs)-1] {
						if _, ok := in.M.CachedLeaves.Get(h); !ok {
							known = false
						}
					}
					if !known {
						continue
					}
					if err := in.M.Modify(nil, cloneHashes(hs), cloneProof(proof)); err == nil {
						return res.failf("step %d: %s accepted a block spending a hash that is not a leaf of the forest", i, in.Cfg)
					}
					res.count("refused-modify", 1)
				}
			}
		case "restore":
			for k, in := range insts {
				var buf bytes.Buffer
				if in.P != nil {
					if _, err := in.P.WriteTo(&buf); err != nil {
						res.class("setup-failed")
						return res
					}
					_, p2, err := u.RestorePollardFrom(bytes.NewReader(buf.Bytes()))
					if err != nil {
						res.class("setup-failed")
						return res
					}
					insts[k] = &Inst{Cfg: in.Cfg, P: p2}
				} else {
					if _, err := in.M.Write(&buf); err != nil {
						res.class("setup-failed")
						return res
					}
					m2 := u.NewMapPollard(in.M.Full)
					if in.Cfg.Ext {
						extStores(&m2)
					}
					if _, err := m2.Read(bytes.NewReader(buf.Bytes())); err != nil {
						res.class("setup-failed")
						return res
					}
					insts[k] = &Inst{Cfg: in.Cfg, M: &m2}
				}
			}
		default:
			return res.failf("case error: unknown op %q", st.Op)
		}
		res.count("op:"+st.Op, 1)
		for _, in := range insts {
			if err := checkLookups(in, f, trackedList(), everAdded, res); err != nil {
				return res.failf("after step %d (%s): %v", i, st.Op, err)
			}
		}
	}
	res.NonTrivial = anyDel && res.Counts["probe:dead-leaf"] > 0 && res.Counts["probe:inner-node-hash"] > 0 && res.Counts["probe:nonexistent-position"] > 0
	return res
}

func TestC10(t *testing.T) {
	runSpec(t, Spec[C10Case]{ID: "C10", Gen: genC10, Run: runC10, Pre: preScaleC10})
}

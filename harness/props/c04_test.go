package props

// C04 - verifiers are total on untrusted input (no panic, bounded work) and Stump.Update
// rejects atomically.

import (
	"fmt"
	"math/bits"
	"runtime/debug"
	"testing"

	u "github.com/utreexo/utreexo"
	"pgregory.net/rapid"
	"verifharness/model"
)

type C04Case struct {
	Blocks []Block `json:"blocks"` // builds the real (small) forest
	Map    Cfg     `json:"map"`
	// High != 0: the stump handed to Verify / Stump.Update is the real forest embedded at the low
	// end of a huge accumulator: NumLeaves = High + N, one fresh root per 1-bit of High.
	High uint64 `json:"high,omitempty"`
	// Synth: roots are arbitrary references instead (len = popcount(NumLeaves)); overrides High.
	SynthN     uint64   `json:"synth_n,omitempty"`
	SynthRoots []string `json:"synth_roots,omitempty"`
	Tuple      Tuple    `json:"tuple"`
	// Deep > 0: the state is ONE tree of 2^Deep leaves of which only leaf 0 and its path are known
	// (a light client's view): true claims exist for a node on every row up to Deep. Stump verifiers
	// get the one-root stump, the map forest is NewMapPollardFromRoots of it. Overrides the above.
	Deep     int  `json:"deep,omitempty"`
	Adds     int  `json:"adds,omitempty"` // additions passed to Stump.Update
	Remember bool `json:"remember,omitempty"`
}

type tickBudget struct {
	site  string
	limit int
}

// guarded runs fn with the loop-tick budget installed; it converts a panic or an exceeded
// budget into an error.
func guarded(budget int, fn func()) (err error) {
	n := 0
	u.VerifSetTick(func(site string) {
		n++
		if n > budget {
			panic(tickBudget{site, budget})
		}
	})
	defer u.VerifSetTick(nil)
	defer func() {
		if p := recover(); p != nil {
			if tb, ok := p.(tickBudget); ok {
				err = fmt.Errorf("does not terminate in polynomial time: loop %s passed %d iterations", tb.site, tb.limit)
				return
			}
			err = fmt.Errorf("panic: %v\n%s", p, debug.Stack())
		}
	}()
	fn()
	return nil
}

// embedPos translates a position of the small layout into the layout of High+N leaves.
func embedPos(pos uint64, small *model.View, high uint64) uint64 {
	if high == 0 {
		return pos
	}
	r, k, ok := model.RowOff(pos, small.R)
	if !ok {
		return pos
	}
	R := model.Rows(high + small.N)
	return model.Pos(r, k+(high>>r), R)
}

func genC04(t *rapid.T) C04Case {
	lim := tierLimits()
	lim.maxLeaves = 40
	lim.maxBlocks = 6
	if bigCase(t) {
		lim.maxLeaves, lim.maxBlocks, lim.maxAdd = 700, 6, 300
	}
	c := C04Case{Map: genMapCfg(t, "map")}
	f := &model.Forest{}
	nb := rapid.IntRange(0, lim.maxBlocks).Draw(t, "nblocks")
	for i := 0; i < nb; i++ {
		c.Blocks = append(c.Blocks, genBlock(t, f, lim, true))
	}
	v := f.View()
	mode := rapid.SampledFrom([]string{"real", "real", "embedded", "synth", "deep"}).Draw(t, "statemode")
	if mode == "deep" {
		c.Blocks = nil
		c.Deep = rapid.SampledFrom([]int{1, 2, 5, 8, 16, 31, 32, 33, 40, 47, 62, 63}).Draw(t, "deep")
		df, dv := deepView(c.Deep)
		hostileRows = []int{63, c.Deep + 1}
		c.Tuple = genHostileTuple(t, df, dv, false, true)
		c.Adds = rapid.IntRange(0, 3).Draw(t, "adds")
		c.Remember = rapid.Bool().Draw(t, "remember")
		return c
	}
	switch mode {
	case "embedded":
		lowBits := uint(bits.Len64(f.N()))
		k := uint(rapid.IntRange(int(lowBits), 62).Draw(t, "highbit"))
		c.High = uint64(1) << k
		if rapid.Bool().Draw(t, "morehigh") && k+1 <= 62 {
			c.High |= uint64(1) << uint(rapid.IntRange(int(k)+1, 62).Draw(t, "highbit2"))
		}
	case "synth":
		c.SynthN = rapid.OneOf(rapid.SampledFrom(hostileConsts), rapid.Uint64(), rapid.Uint64Range(0, 70)).Draw(t, "synthn")
		if c.SynthN > 1<<63 { // forests have at most 63 rows: NumLeaves <= 2^63
			c.SynthN >>= 1
		}
		for i := 0; i < bits.OnesCount64(c.SynthN); i++ {
			c.SynthRoots = append(c.SynthRoots, genHashRef(t, f, v, true, "sroot"))
		}
	}
	hostileRows = []int{63, c.Map.Rows, int(model.Rows(f.N())) + 1}
	tv := v
	if mode == "synth" {
		tv = &model.View{N: c.SynthN, R: model.Rows(c.SynthN), At: map[uint64]Hash{}, NodeAt: map[uint64]*model.Node{}, IsRoot: map[uint64]bool{}}
		c.Tuple = genFreeTuple(t, f, tv, false, true)
	} else {
		c.Tuple = genHostileTuple(t, f, v, false, true)
		if mode == "embedded" {
			for i, p := range c.Tuple.Targets {
				if rapid.IntRange(0, 9).Draw(t, "keepraw") != 0 {
					c.Tuple.Targets[i] = embedPos(p, v, c.High)
				}
			}
		}
	}
	c.Adds = rapid.IntRange(0, 3).Draw(t, "adds")
	c.Remember = rapid.Bool().Draw(t, "remember")
	return c
}

func copyStump(s u.Stump) u.Stump {
	return u.Stump{Roots: cloneHashes(s.Roots), NumLeaves: s.NumLeaves}
}

// deepView builds the light-client view of a single tree of 2^k leaves: leaf 0, the sibling of every
// node on its path (fresh, non-zero hashes) and the path nodes up to the root.
func deepView(k int) (*model.Forest, *model.View) {
	R := uint8(k)
	f := &model.Forest{Hashes: []Hash{model.LeafHash(0)}, Dead: []bool{false}}
	v := &model.View{N: uint64(1) << uint(k), R: R, At: map[uint64]Hash{}, NodeAt: map[uint64]*model.Node{}, LeafPos: map[Hash]uint64{},
		SlotPos: map[int]uint64{}, IsRoot: map[uint64]bool{}}
	cur := &model.Node{Hash: f.Hashes[0], Slot: 0, Pos: 0, Row: 0}
	v.LeafPos[cur.Hash], v.SlotPos[0] = 0, 0
	put := func(n *model.Node) { v.At[n.Pos], v.NodeAt[n.Pos] = n.Hash, n }
	put(cur)
	for r := uint8(0); r < R; r++ {
		sib := &model.Node{Hash: model.FreshHash(9000 + int(r)), Slot: -1, Pos: model.Pos(r, 1, R), Row: r}
		par := &model.Node{Hash: model.ParentHash(cur.Hash, sib.Hash), Slot: -1, L: cur, R: sib, Pos: model.Pos(r+1, 0, R), Row: r + 1}
		cur.Up, sib.Up = par, par
		put(sib)
		put(par)
		cur = par
	}
	rp := model.Pos(R, 0, R)
	v.IsRoot[rp] = true
	v.RootPos, v.Roots = []uint64{rp}, []Hash{cur.Hash}
	v.Trees = []model.TreeInfo{{Height: R, First: 0, RootPos: rp, Root: cur}}
	return f, v
}

// runC04Deep: the deep single-tree state. Same oracles, on Verify, Stump.Update and a map forest
// started from the bare root.
func runC04Deep(c C04Case, res *Result) *Result {
	if c.Deep < 1 || c.Deep > 63 {
		return res.failf("case error: deep %d", c.Deep)
	}
	f, v := deepView(c.Deep)
	hs, proof, err := tupleToArgs(c.Tuple, f, v)
	if err != nil {
		return res.failf("case error: %v", err)
	}
	stump := u.Stump{Roots: cloneHashes(v.Roots), NumLeaves: v.N}
	res.class(fmt.Sprintf("state:deep-%d", c.Deep))
	for _, m := range c.Tuple.Mut {
		res.class("mut:" + m)
	}
	budget := 10000 + 1000*(len(hs)+len(proof.Targets)+len(proof.Proof)+c.Adds)
	accepted := 0
	var verr error
	if e := guarded(budget, func() { _, verr = u.Verify(copyStump(stump), cloneHashes(hs), cloneProof(proof)) }); e != nil {
		return res.failf("Verify(one tree of 2^%d leaves, targets %v, %d proof hashes): %v", c.Deep, proof.Targets, len(proof.Proof), e)
	}
	if verr == nil {
		accepted++
	}
	work := copyStump(stump)
	_, addH := mkLeaves(1, c.Adds, nil)
	var uerr error
	if e := guarded(budget, func() { _, uerr = work.Update(cloneHashes(hs), addH, cloneProof(proof)) }); e != nil {
		return res.failf("Stump.Update(one tree of 2^%d leaves, targets %v, %d adds): %v", c.Deep, proof.Targets, c.Adds, e)
	}
	if uerr != nil {
		if work.NumLeaves != stump.NumLeaves || !eqHashes(work.Roots, stump.Roots) {
			return res.failf("Stump.Update (one tree of 2^%d leaves, targets %v, %d adds) rejected its input (%v) but changed the stump: leaves %d->%d, roots %s -> %s",
				c.Deep, proof.Targets, c.Adds, uerr, stump.NumLeaves, work.NumLeaves, shortHs(stump.Roots), shortHs(work.Roots))
		}
		res.count("update_rejections_checked_atomic", 1)
	} else {
		accepted++
	}
	m := u.NewMapPollardFromRoots(cloneHashes(v.Roots), v.N, false)
	var merr error
	if e := guarded(budget, func() {
		merr = m.VerifyPartialProof(cloneU64(proof.Targets), cloneHashes(hs), cloneHashes(proof.Proof), false)
	}); e != nil {
		return res.failf("MapPollard (from the root of 2^%d leaves) VerifyPartialProof(targets %v): %v", c.Deep, proof.Targets, e)
	}
	if e := guarded(budget, func() { merr = m.Verify(cloneHashes(hs), cloneProof(proof), c.Remember) }); e != nil {
		return res.failf("MapPollard (from the root of 2^%d leaves) Verify(targets %v, remember=%v): %v", c.Deep, proof.Targets, c.Remember, e)
	}
	if merr == nil {
		accepted++
	}
	if c.Remember {
		if e := guarded(budget, func() {
			merr = m.VerifyPartialProof(cloneU64(proof.Targets), cloneHashes(hs), cloneHashes(proof.Proof), true)
		}); e != nil {
			return res.failf("MapPollard (from the root of 2^%d leaves) VerifyPartialProof(remember=true, targets %v): %v", c.Deep, proof.Targets, e)
		}
	}
	res.count("calls_accepted", accepted)
	res.NonTrivial = len(hs) == len(proof.Targets)
	return res
}

func runC04(c C04Case) *Result {
	res := &Result{}
	if c.Deep != 0 {
		return runC04Deep(c, res)
	}
	cfgs := []Cfg{{Kind: "pollard"}, c.Map}
	ls := newLockstep(cfgs)
	for i, b := range c.Blocks {
		if err := ls.step(i, b); err != nil {
			res.class("setup-failed")
			return res // building the state is C01's business
		}
	}
	f := ls.f
	v := f.View()
	hs, proof, err := tupleToArgs(c.Tuple, f, v)
	if err != nil {
		return res.failf("case error: %v", err)
	}
	stump := u.Stump{Roots: cloneHashes(v.Roots), NumLeaves: v.N}
	mode := "real"
	if c.SynthRoots != nil || c.SynthN != 0 {
		mode = "synth"
		roots, err := resolveAll(c.SynthRoots, f, v)
		if err != nil || len(roots) != bits.OnesCount64(c.SynthN) {
			return res.failf("case error: synthetic stump needs popcount(NumLeaves) roots")
		}
		if c.SynthN > 1<<63 {
			return res.failf("case error: NumLeaves above 2^63 is not a well-formed state (at most 63 rows)")
		}
		stump = u.Stump{Roots: roots, NumLeaves: c.SynthN}
	} else if c.High != 0 {
		mode = "embedded"
		if c.High&((uint64(1)<<uint(bits.Len64(v.N)))-1) != 0 || c.High+v.N > 1<<63 {
			return res.failf("case error: High must only have bits above those of N")
		}
		var roots []Hash
		for h := 63; h >= 0; h-- {
			if c.High&(uint64(1)<<uint(h)) != 0 {
				roots = append(roots, model.FreshHash(1000+h))
			}
		}
		stump = u.Stump{Roots: append(roots, v.Roots...), NumLeaves: c.High + v.N}
	}
	res.class("state:" + mode)
	for _, m := range c.Tuple.Mut {
		res.class("mut:" + m)
	}
	inputLen := len(hs) + len(proof.Targets) + len(proof.Proof) + c.Adds
	budget := 10000 + 1000*inputLen
	lenOK := len(hs) == len(proof.Targets)

	accepted, rejected := 0, 0
	note := func(err error) {
		if err == nil {
			accepted++
		} else {
			rejected++
		}
	}

	// 1. stand-alone Verify
	var verr error
	if e := guarded(budget, func() { _, verr = u.Verify(copyStump(stump), cloneHashes(hs), cloneProof(proof)) }); e != nil {
		return res.failf("Verify(stump N=%d, %d hashes, targets %v, %d proof hashes): %v", stump.NumLeaves, len(hs), proof.Targets, len(proof.Proof), e)
	}
	note(verr)

	// 2. Stump.Update: must not panic, must terminate, and must leave the stump unchanged when it rejects
	work := copyStump(stump)
	_, addH := mkLeaves(len(f.Hashes), c.Adds, nil)
	var uerr error
	if e := guarded(budget, func() { _, uerr = work.Update(cloneHashes(hs), addH, cloneProof(proof)) }); e != nil {
		return res.failf("Stump.Update(N=%d, targets %v): %v", stump.NumLeaves, proof.Targets, e)
	}
	note(uerr)
	if uerr != nil {
		if work.NumLeaves != stump.NumLeaves || !eqHashes(work.Roots, stump.Roots) {
			return res.failf("Stump.Update rejected its input (%v) but changed the stump: leaves %d->%d, roots %s -> %s", uerr, stump.NumLeaves, work.NumLeaves, shortHs(stump.Roots), shortHs(work.Roots))
		}
		res.count("update_rejections_checked_atomic", 1)
	}

	// 3. forest verifiers, on the real state
	pol, mp := ls.insts[0], ls.insts[1]
	var perr error
	if e := guarded(budget, func() { perr = pol.P.Verify(cloneHashes(hs), cloneProof(proof), c.Remember) }); e != nil {
		return res.failf("Pollard.Verify(N=%d, targets %v): %v", v.N, proof.Targets, e)
	}
	note(perr)
	var pperr error
	if e := guarded(budget, func() {
		pperr = mp.M.VerifyPartialProof(cloneU64(proof.Targets), cloneHashes(hs), cloneHashes(proof.Proof), false)
	}); e != nil {
		return res.failf("%s VerifyPartialProof(N=%d, targets %v): %v", mp.Cfg, v.N, proof.Targets, e)
	}
	note(pperr)
	var merr error
	if e := guarded(budget, func() { merr = mp.M.Verify(cloneHashes(hs), cloneProof(proof), c.Remember) }); e != nil {
		return res.failf("%s Verify(N=%d, targets %v, remember=%v): %v", mp.Cfg, v.N, proof.Targets, c.Remember, e)
	}
	note(merr)
	if c.Remember {
		var e2 error
		if e := guarded(budget, func() {
			e2 = mp.M.VerifyPartialProof(cloneU64(proof.Targets), cloneHashes(hs), cloneHashes(proof.Proof), true)
		}); e != nil {
			return res.failf("%s VerifyPartialProof(remember=true, N=%d, targets %v): %v", mp.Cfg, v.N, proof.Targets, e)
		}
		note(e2)
	}
	res.count("calls", accepted+rejected)
	res.count("calls_accepted", accepted)
	res.NonTrivial = lenOK
	if !lenOK {
		res.class("length-mismatch")
	}
	return res
}

func TestC04(t *testing.T) {
	runSpec(t, Spec[C04Case]{ID: "C04", Gen: genC04, Run: runC04})
}

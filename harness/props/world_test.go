package props

// world drives several instances (any mix of Pollard / full map / partial map) and the reference
// model through the same generated steps, keeping the set of leaves a partial forest is expected
// to remember. Used by C12, C13 and C17, which need "any reachable state" plus a way to continue
// from it. Steps are plain data (WStep) so that cases stay replayable.

import (
	"bytes"
	"fmt"
	"sort"

	u "github.com/utreexo/utreexo"
	"pgregory.net/rapid"
	"verifharness/model"
)

type WStep struct {
	Op  string `json:"op"` // block | undo | verify | ingest | vpp | badverify | prune | reread | restart
	B   *Block `json:"b,omitempty"`
	Set []int  `json:"set,omitempty"`
}

type wFrame struct {
	before *model.Forest
	b      Block
	delH   []Hash
	proof  u.Proof
	roots  []Hash
}

type world struct {
	insts   []*Inst
	f       *model.Forest
	stack   []wFrame
	tracked map[int]bool
	ever    []Hash // every leaf hash ever added on any branch
	seen    map[Hash]bool

	lastCall func(in *Inst) error // the library call of the last step, arguments bound
}

func newWorld(cfgs []Cfg) *world {
	w := &world{f: &model.Forest{}, tracked: map[int]bool{}, seen: map[Hash]bool{}}
	for _, c := range cfgs {
		w.insts = append(w.insts, newInst(c))
	}
	return w
}

func (w *world) trackedList() []int {
	var l []int
	for s := range w.tracked {
		l = append(l, s)
	}
	sort.Ints(l)
	return l
}

func (w *world) liveCheck(i int, slots []int) error {
	for _, s := range slots {
		if s < 0 || s >= len(w.f.Dead) || w.f.Dead[s] {
			return fmt.Errorf("case error: step %d names slot %d which is not live", i, s)
		}
	}
	return nil
}

// step applies one step to every instance. caseErr reports a malformed case (only possible for
// hand-edited replay files); opErr reports that the library refused an honest operation.
// The library call of the step, with all its arguments bound, is also kept in w.lastCall so that a
// schedule harness (C12) can replay exactly that call from another goroutine without touching w.
func (w *world) step(i int, st WStep) (caseErr, opErr error) {
	call, post, caseErr := w.prepare(i, st)
	if caseErr != nil {
		return caseErr, nil
	}
	w.lastCall = call
	for _, in := range w.insts {
		if err := call(in); err != nil {
			return nil, err
		}
	}
	post()
	return nil, nil
}

// prepare builds the library call of one step (arguments are fresh copies on every invocation)
// and the model bookkeeping that follows it.
func (w *world) prepare(i int, st WStep) (call func(in *Inst) error, post func(), caseErr error) {
	f := w.f
	switch st.Op {
	case "block":
		if st.B == nil {
			return nil, nil, fmt.Errorf("case error: block step %d without block", i)
		}
		b := *st.B
		if err := w.liveCheck(i, b.Del); err != nil {
			return nil, nil, err
		}
		v := f.View()
		delH := f.HashesOf(b.Del)
		proof := v.Proof(delH)
		adds, addH := mkLeavesSalt(b.Salt, len(f.Hashes), b.Add, func(k int) bool { return inSet(b.Rem, k) })
		fr := wFrame{f.Clone(), b, delH, proof, cloneHashes(v.Roots)}
		call = func(in *Inst) error {
			if err := in.Apply(adds, delH, proof); err != nil {
				return fmt.Errorf("step %d: %s refused the valid block {del %v, add %d}: %v", i, in.Cfg, b.Del, b.Add, err)
			}
			return nil
		}
		post = func() {
			w.stack = append(w.stack, fr)
			first := len(f.Hashes)
			applyToModel(f, b)
			for _, s := range b.Del {
				delete(w.tracked, s)
			}
			for k, h := range addH {
				if !w.seen[h] {
					w.seen[h] = true
					w.ever = append(w.ever, h)
				}
				if inSet(b.Rem, k) {
					w.tracked[first+k] = true
				}
			}
		}
	case "undo":
		if len(w.stack) == 0 {
			return nil, nil, fmt.Errorf("case error: undo at step %d with empty history", i)
		}
		fr := w.stack[len(w.stack)-1]
		call = func(in *Inst) error {
			in.ar.next()
			if err := in.Acc().Undo(uint64(fr.b.Add), in.ar.proof(fr.proof), in.ar.hashes(fr.delH), in.ar.hashes(fr.roots)); err != nil {
				return fmt.Errorf("step %d: %s: Undo of block {del %v, add %d} failed: %v", i, in.Cfg, fr.b.Del, fr.b.Add, err)
			}
			return nil
		}
		post = func() {
			w.stack = w.stack[:len(w.stack)-1]
			w.f = fr.before
			for s := range w.tracked {
				if s >= len(w.f.Hashes) {
					delete(w.tracked, s)
				}
			}
			for _, s := range fr.b.Del {
				w.tracked[s] = true
			}
		}
	case "verify", "ingest", "vpp":
		if err := w.liveCheck(i, st.Set); err != nil {
			return nil, nil, err
		}
		hs := f.HashesOf(st.Set)
		vw := f.View()
		proof := vw.Proof(hs)
		call = func(in *Inst) error {
			var err error
			a := &in.ar
			a.next()
			if st.Op == "ingest" && in.M != nil {
				err = in.M.Ingest(a.hashes(hs), a.proof(proof))
			} else if st.Op == "vpp" && in.M != nil {
				err = vppRemember(in.M, a, vw, proof.Targets, hs)
			} else {
				err = in.Acc().Verify(a.hashes(hs), a.proof(proof), true)
			}
			if err != nil {
				return fmt.Errorf("step %d: %s: %s of an honest proof for slots %v failed: %v", i, in.Cfg, st.Op, st.Set, err)
			}
			return nil
		}
		post = func() {
			for _, s := range st.Set {
				w.tracked[s] = true
			}
		}
	case "badverify":
		// Verify(remember=true) of a proof with one wrong hash: it has to be refused (that is C03's
		// business and not asserted here) and, refused or not, must leave nothing false behind - the
		// state checks that follow every step see to that
		if err := w.liveCheck(i, st.Set); err != nil {
			return nil, nil, err
		}
		hs := f.HashesOf(st.Set)
		proof := f.View().Proof(hs)
		if len(proof.Proof) > 0 {
			proof.Proof = cloneHashes(proof.Proof)
			proof.Proof[len(proof.Proof)/2] = model.FreshHash(4242)
		} else if len(hs) > 0 {
			hs = cloneHashes(hs)
			hs[0] = model.FreshHash(4243)
		}
		call = func(in *Inst) error {
			defer func() { recover() }() // a panic on hostile input is C04's business
			in.Acc().Verify(cloneHashes(hs), cloneProof(proof), true)
			return nil
		}
		post = func() {}
	case "prune":
		var hs []Hash
		for _, s := range st.Set {
			if s < 0 || s >= len(f.Hashes) {
				return nil, nil, fmt.Errorf("case error: prune of unknown slot %d", s)
			}
			hs = append(hs, f.Hashes[s])
		}
		call = func(in *Inst) error {
			if in.M == nil || in.M.Full {
				return nil // pruning is only meaningful for a partial forest
			}
			in.ar.next()
			if err := in.M.Prune(in.ar.hashes(hs)); err != nil {
				return fmt.Errorf("step %d: %s: Prune(slots %v) failed: %v", i, in.Cfg, st.Set, err)
			}
			return nil
		}
		post = func() {
			for _, s := range st.Set {
				delete(w.tracked, s)
			}
		}
	case "reread":
		// the writer serializes its own state and reads it back into the same instance (Read is a
		// writer-side operation of the map forest); the state does not change
		call = func(in *Inst) error {
			if in.M == nil {
				return nil
			}
			var buf bytes.Buffer
			if _, err := in.M.Write(&buf); err != nil {
				return fmt.Errorf("step %d: %s: Write failed: %v", i, in.Cfg, err)
			}
			if _, err := in.M.Read(&buf); err != nil {
				return fmt.Errorf("step %d: %s: Read of its own stream failed: %v", i, in.Cfg, err)
			}
			return nil
		}
		post = func() {}
	case "restart":
		// the process is shut down and started again: every forest is written out and replaced by what its
		// own bytes restore to (a restored forest is not built the way a grown one is); the state does not change
		call = func(in *Inst) error {
			if in.S != nil {
				return nil
			}
			var buf bytes.Buffer
			if _, err := serialize(in, &buf); err != nil {
				return fmt.Errorf("step %d: %s: writing the forest failed: %v", i, in.Cfg, err)
			}
			in2, _, err, perr := restore(in.Cfg, bytes.NewReader(buf.Bytes()))
			if perr != nil {
				err = perr
			}
			if err != nil {
				return fmt.Errorf("step %d: %s: restoring the forest from its own %d bytes failed: %v", i, in.Cfg, buf.Len(), err)
			}
			in.P, in.M = in2.P, in2.M
			return nil
		}
		post = func() {}
	default:
		return nil, nil, fmt.Errorf("case error: unknown op %q", st.Op)
	}
	return call, post, nil
}

// check compares every instance with the model (full forests completely, partial forests by the
// C09 sandwich with the exact remembered set).
func (w *world) check() error {
	for _, in := range w.insts {
		if err := w.checkOne(in); err != nil {
			return err
		}
	}
	return nil
}

func (w *world) checkOne(in *Inst) error {
	if in.M != nil && !in.M.Full {
		return checkPartialForest(in, w.f, w.trackedList(), true)
	}
	return checkFullForest(in, w.f, w.ever, true)
}

// wgen generates steps against a model, mirroring world's bookkeeping.
type wgen struct {
	f       *model.Forest
	stack   []wgFrame
	tracked map[int]bool
	branch  int
	partial bool // some instance is a partial forest: prune / ingest make sense
}

type wgFrame struct {
	f   *model.Forest
	del []int
}

func newWgen(partial bool) *wgen {
	return &wgen{f: &model.Forest{}, tracked: map[int]bool{}, partial: partial}
}

func (g *wgen) trackedList() []int {
	var l []int
	for s := range g.tracked {
		l = append(l, s)
	}
	sort.Ints(l)
	return l
}

func (g *wgen) next(t *rapid.T, lim limits, ops []string) WStep {
	op := rapid.SampledFrom(ops).Draw(t, "op")
	switch {
	case (op == "verify" || op == "ingest" || op == "vpp") && g.f.NumLive() == 0:
		op = "block"
	case op == "prune" && (len(g.tracked) == 0 || !g.partial):
		op = "block"
	case (op == "ingest" || op == "vpp") && !g.partial:
		op = "verify"
	case op == "undo" && len(g.stack) == 0:
		op = "block"
	}
	switch op {
	case "reread":
		return WStep{Op: "reread"}
	case "restart":
		return WStep{Op: "restart"}
	case "block":
		g.stack = append(g.stack, wgFrame{f: g.f.Clone()})
		b := genBlockSalt(t, g.f, lim, true, g.branch)
		g.stack[len(g.stack)-1].del = b.Del
		for _, s := range b.Del {
			delete(g.tracked, s)
		}
		for _, r := range b.Rem {
			g.tracked[len(g.f.Hashes)-b.Add+r] = true
		}
		return WStep{Op: "block", B: &b}
	case "undo":
		top := g.stack[len(g.stack)-1]
		g.stack = g.stack[:len(g.stack)-1]
		g.f = top.f
		for s := range g.tracked {
			if s >= len(g.f.Hashes) {
				delete(g.tracked, s)
			}
		}
		for _, s := range top.del {
			g.tracked[s] = true
		}
		g.branch++
		return WStep{Op: "undo"}
	case "verify", "ingest", "vpp":
		switch rapid.IntRange(0, 11).Draw(t, "odd-call") {
		case 0: // a call with empty arguments: legal, must change nothing
			return WStep{Op: op}
		case 1: // a proof with a wrong hash, to be refused without leaving anything behind
			return WStep{Op: "badverify", Set: genRequest(t, g.f)}
		}
		set := genRequest(t, g.f)
		for _, s := range set {
			g.tracked[s] = true
		}
		return WStep{Op: op, Set: set}
	default: // prune
		if rapid.IntRange(0, 11).Draw(t, "empty-prune") == 0 {
			return WStep{Op: "prune"}
		}
		set := subsetP(t, g.trackedList(), 1, 2, "prune")
		if len(set) == 0 {
			set = g.trackedList()[:1]
		}
		set = permute(t, set, "pruneperm")
		for _, s := range set {
			delete(g.tracked, s)
		}
		return WStep{Op: "prune", Set: set}
	}
}

// addOnly appends a block that only adds k leaves (used when a generator needs live leaves).
func (g *wgen) addOnly(k int) WStep {
	g.stack = append(g.stack, wgFrame{f: g.f.Clone()})
	b := Block{Add: k, Salt: g.branch, DM: "none", AM: "forced"}
	applyToModel(g.f, b)
	return WStep{Op: "block", B: &b}
}

// vppRemember is the partial-proof way of remembering leaves: ask the forest which proof positions it
// lacks, hand VerifyPartialProof(remember=true) the true hashes of exactly those (often none at all:
// siblings of leaves it already tracks).
func vppRemember(m *u.MapPollard, a *arena, v *model.View, targets []uint64, hs []Hash) error {
	a.next()
	missing := m.GetMissingPositions(a.u64s(targets))
	supply := make([]Hash, 0, len(missing))
	for _, p := range missing {
		h, ok := v.At[p]
		if !ok {
			return fmt.Errorf("GetMissingPositions(%v) names position %d, which holds no node of the forest", targets, p)
		}
		supply = append(supply, h)
	}
	a.next()
	if err := m.VerifyPartialProof(a.u64s(targets), a.hashes(hs), a.hashes(supply), true); err != nil {
		return fmt.Errorf("VerifyPartialProof(remember) with the %d hashes GetMissingPositions asked for (%v): %v", len(missing), missing, err)
	}
	return nil
}

package props

// Framework shared by every property check: flags, per-process evidence recorder,
// replay mode, hang watchdog, and the generic "gen -> Case -> Run" driver around rapid.

import (
	"crypto/sha256"
	"encoding/hex"
	"encoding/json"
	"flag"
	"fmt"
	"os"
	"runtime/debug"
	"sort"
	"sync"
	"sync/atomic"
	"testing"
	"time"

	"pgregory.net/rapid"
	"verifharness/model"
)

var (
	flagReplay   = flag.String("verif.replay", "", "run the property's Run on this saved case file instead of generating")
	flagOut      = flag.String("verif.out", "", "write the shard's evidence JSON here")
	flagTier     = flag.String("verif.tier", "quick", "quick or thorough (sizes of generated cases)")
	flagHang     = flag.Int("verif.hang", 120, "seconds a single case may run before the watchdog declares a hang")
	flagSamples  = flag.Int("verif.samples", 3, "non-trivial sample cases to keep per shard")
	flagShard    = flag.String("verif.shard", "0/1", "i/n: this process is shard i of n (deterministic enumerations are dealt round-robin)")
	flagNoExh    = flag.Bool("verif.noexh", false, "skip deterministic enumerations (development only)")
	flagKnown    = flag.String("verif.known", "", "path of known_findings.json (open findings are excluded by construction and counted)")
	flagInflight = flag.String("verif.inflight", "", "write the JSON of the case in flight to this file before running it (race builds: the process halts on the first report)")
)

// openFindings holds the ids of the findings listed as open in known_findings.json.
// A shape is only ever excluded from a check while its finding is listed there.
var openFindings = map[string]bool{}

func loadKnown() {
	if *flagKnown == "" {
		return
	}
	b, err := os.ReadFile(*flagKnown)
	if err != nil {
		return
	}
	var entries []struct {
		Finding string `json:"finding"`
		Status  string `json:"status"`
	}
	if json.Unmarshal(b, &entries) != nil {
		return
	}
	for _, e := range entries {
		if e.Status == "open" {
			openFindings[e.Finding] = true
		}
	}
}

func kfOpen(id string) bool { return openFindings[id] }

func thorough() bool { return *flagTier == "thorough" }

func shardOf() (int, int) {
	var i, n int
	if _, err := fmt.Sscanf(*flagShard, "%d/%d", &i, &n); err != nil || n <= 0 || i < 0 || i >= n {
		return 0, 1
	}
	return i, n
}

// Result is what running one case yields.
type Result struct {
	Err        error    // non-nil: the property is violated on this case
	NonTrivial bool     // the case satisfies the property's stated non-trivial rule
	Classes    []string // coverage classes this case falls in (counted)
	Known      []string // ids of known findings whose shape occurred and was excluded
	Counts     map[string]int
}

func (r *Result) class(s string) { r.Classes = append(r.Classes, s) }
func (r *Result) count(s string, n int) {
	if r.Counts == nil {
		r.Counts = map[string]int{}
	}
	r.Counts[s] += n
}
func (r *Result) known(id string) {
	for _, k := range r.Known {
		if k == id {
			return
		}
	}
	r.Known = append(r.Known, id)
}
func (r *Result) failf(format string, a ...any) *Result {
	if r.Err == nil {
		r.Err = fmt.Errorf(format, a...)
	}
	return r
}

type shardOut struct {
	Property    string            `json:"property"`
	Mode        string            `json:"mode"` // generate | replay
	Tier        string            `json:"tier"`
	Evaluations int               `json:"evaluations"`
	BulkEvals   int               `json:"bulk_evaluations"` // cases of deterministic enumerations (distinct by construction)
	BulkNT      int               `json:"bulk_nontrivial"`  // of those, non-trivial
	NonTrivial  []string          `json:"nontrivial_hashes"`
	Classes     map[string]int    `json:"classes"`
	Samples     []json.RawMessage `json:"samples"`
	Known       map[string]int    `json:"known"`
	Failed      bool              `json:"failed"`
	FailMsg     string            `json:"fail_msg,omitempty"`
	FailCase    json.RawMessage   `json:"fail_case,omitempty"`
	Hang        bool              `json:"hang,omitempty"`
	WallS       float64           `json:"wall_s"`
	Extra       map[string]any    `json:"extra,omitempty"`
}

type recorder struct {
	mu      sync.Mutex
	out     shardOut
	nt      map[string]bool
	start   time.Time
	current atomic.Pointer[[]byte] // JSON of the case in flight (for the watchdog)
	began   atomic.Int64           // unix nanos when the case in flight started; 0 = idle
}

var rec = &recorder{}

func (r *recorder) reset(prop, mode string) {
	r.mu.Lock()
	defer r.mu.Unlock()
	r.out = shardOut{Property: prop, Mode: mode, Tier: *flagTier, Classes: map[string]int{}, Known: map[string]int{}, Extra: map[string]any{}}
	r.nt = map[string]bool{}
	r.start = time.Now()
}

func caseJSON(c any) []byte {
	b, err := json.Marshal(c)
	if err != nil {
		panic(err)
	}
	return b
}

func caseHash(b []byte) string {
	s := sha256.Sum256(b)
	return hex.EncodeToString(s[:8])
}

func (r *recorder) observe(cj []byte, res *Result) {
	r.mu.Lock()
	defer r.mu.Unlock()
	r.out.Evaluations++
	for _, c := range res.Classes {
		r.out.Classes[c]++
	}
	for k, n := range res.Counts {
		r.out.Classes[k] += n
	}
	for _, k := range res.Known {
		r.out.Known[k]++
	}
	if res.NonTrivial && res.Err == nil {
		h := caseHash(cj)
		if !r.nt[h] {
			r.nt[h] = true
			if len(r.out.Samples) < *flagSamples && len(cj) < 6000 {
				r.out.Samples = append(r.out.Samples, json.RawMessage(cj))
			}
		}
	}
}

func (r *recorder) bulk(evals, nt int) {
	r.mu.Lock()
	defer r.mu.Unlock()
	r.out.BulkEvals += evals
	r.out.BulkNT += nt
}

func (r *recorder) extra(k string, v any) {
	r.mu.Lock()
	defer r.mu.Unlock()
	r.out.Extra[k] = v
}

func (r *recorder) addExtraCount(k string, n int) {
	r.mu.Lock()
	defer r.mu.Unlock()
	cur, _ := r.out.Extra[k].(int)
	r.out.Extra[k] = cur + n
}

func (r *recorder) flush() {
	r.mu.Lock()
	defer r.mu.Unlock()
	if *flagOut == "" {
		return
	}
	r.out.NonTrivial = r.out.NonTrivial[:0]
	for h := range r.nt {
		r.out.NonTrivial = append(r.out.NonTrivial, h)
	}
	sort.Strings(r.out.NonTrivial)
	r.out.WallS = time.Since(r.start).Seconds()
	b, _ := json.Marshal(&r.out)
	tmp := *flagOut + ".tmp"
	if err := os.WriteFile(tmp, b, 0o644); err == nil {
		os.Rename(tmp, *flagOut)
	}
}

func (r *recorder) fail(msg string, cj []byte, hang bool) {
	r.mu.Lock()
	r.out.Failed = true
	r.out.FailMsg = msg
	r.out.FailCase = json.RawMessage(cj)
	r.out.Hang = hang
	r.mu.Unlock()
}

// watchdog: a case that does not finish within -verif.hang seconds is recorded as the
// failing case (hang=true) and the process exits with status 3. The driver re-runs that
// case alone before reporting anything.
func startWatchdog() {
	go func() {
		for {
			time.Sleep(500 * time.Millisecond)
			b := rec.began.Load()
			if b == 0 {
				continue
			}
			if time.Since(time.Unix(0, b)) > time.Duration(*flagHang)*time.Second {
				cj := rec.current.Load()
				var c []byte
				if cj != nil {
					c = *cj
				}
				rec.fail(fmt.Sprintf("no result after %d s (hang)", *flagHang), c, true)
				rec.flush()
				fmt.Printf("HANG: case did not finish within %d s\n", *flagHang)
				os.Exit(3)
			}
		}
	}()
}

func TestMain(m *testing.M) {
	flag.Parse()
	loadKnown()
	startWatchdog()
	os.Exit(m.Run())
}

// Spec describes one property check.
type Spec[C any] struct {
	ID  string
	Gen func(t *rapid.T) C
	Run func(c C) *Result
	Pre func(t *testing.T) // optional deterministic enumeration run before the generated search
}

func safeRun[C any](run func(C) *Result, c C) (res *Result) {
	defer func() {
		if p := recover(); p != nil {
			res = &Result{Err: fmt.Errorf("panic: %v\n%s", p, debug.Stack())}
		}
	}()
	return run(c)
}

// The case file carries, next to the property's own fields, the number of the case's "sparse leaf"
// (model.SetSparse): which of the first leaves has a hash that is zero outside one byte range.
func withSparse(cj []byte, p int) []byte {
	if p == 0 || len(cj) < 2 || cj[0] != '{' {
		return cj
	}
	if len(cj) == 2 {
		return []byte(fmt.Sprintf(`{"_sparse":%d}`, p))
	}
	return append([]byte(fmt.Sprintf(`{"_sparse":%d,`, p)), cj[1:]...)
}

func sparseOf(cj []byte) int {
	var e struct {
		P int `json:"_sparse"`
	}
	json.Unmarshal(cj, &e)
	return e.P
}

func execCase[C any](spec Spec[C], c C, sp int) (*Result, []byte) {
	model.SetSparse(sp)
	defer model.SetSparse(0)
	cj := withSparse(caseJSON(c), sp)
	rec.current.Store(&cj)
	if *flagInflight != "" {
		os.WriteFile(*flagInflight, cj, 0o644)
	}
	rec.began.Store(time.Now().UnixNano())
	res := safeRun(spec.Run, c)
	rec.began.Store(0)
	rec.observe(cj, res)
	return res, cj
}

// runSpec is the body of every TestCxx function.
func runSpec[C any](t *testing.T, spec Spec[C]) {
	if *flagReplay != "" {
		rec.reset(spec.ID, "replay")
		defer rec.flush()
		b, err := os.ReadFile(*flagReplay)
		if err != nil {
			t.Fatalf("cannot read replay file: %v", err)
		}
		var c C
		if err := json.Unmarshal(b, &c); err != nil {
			t.Fatalf("cannot decode replay file: %v", err)
		}
		res, cj := execCase(spec, c, sparseOf(b))
		for _, k := range res.Known {
			fmt.Printf("REPLAY-KNOWN: %s\n", k)
		}
		if res.Err != nil {
			rec.fail(res.Err.Error(), cj, false)
			fmt.Printf("REPLAY-FAIL: %v\n", res.Err)
			t.Fail()
			return
		}
		fmt.Printf("REPLAY-OK nontrivial=%v\n", res.NonTrivial)
		return
	}

	rec.reset(spec.ID, "generate")
	var lastMsg string
	var lastCase []byte
	defer func() {
		if t.Failed() && lastCase != nil {
			rec.fail(lastMsg, lastCase, false)
		}
		rec.flush()
	}()
	if spec.Pre != nil {
		spec.Pre(t)
	}
	rapid.Check(t, func(rt *rapid.T) {
		// one case in three has a sparse leaf; drawn first so that the generator sees the same hashes as Run
		sp := rapid.IntRange(0, 3*model.SparseModes).Draw(rt, "sparse-leaf")
		if sp > model.SparseModes {
			sp = 0
		}
		model.SetSparse(sp)
		c := spec.Gen(rt)
		res, cj := execCase(spec, c, sp)
		if res.Err != nil {
			lastMsg, lastCase = res.Err.Error(), cj
			rt.Fatalf("%v", res.Err)
		}
	})
}

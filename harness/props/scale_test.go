package props

// Deterministic "scale probes": a few large, hand-shaped histories run before the generated search
// of C01 and C02 (dealt over the shards like the enumerations). They exist because size thresholds
// (a fast path taken only above a few thousand targets, a counter that wraps) lie outside what random
// generation of small cases reaches; they are not random and claim nothing beyond themselves.

import (
	"bytes"
	"fmt"
	"testing"

	u "github.com/utreexo/utreexo"
	"verifharness/model"
)

// scaleHistory builds a history on n = 2^k leaves (k >= 6) that produces, in this order: one big
// addition; scattered deletions that make leaves climb (every 4th leaf of the right half, then the
// partners of some of them so that whole groups vanish and survivors climb two rows); two blocks that
// empty the first and the second quarter (n/4 targets each; afterwards the whole left half is gone); a block that deletes climbed
// leaves together with row-0 twins of the same block and crosses the next power of two with its
// additions; a final block deleting half of what is left.
func scaleHistory(n int) []Block {
	var bs []Block
	bs = append(bs, Block{Add: n, DM: "none", AM: "scale"})
	var d []int
	for s := n / 2; s < n; s += 4 {
		d = append(d, s+3)
	}
	bs = append(bs, Block{Del: d, Add: 3, Rem: []int{0, 2}, DM: "scale-climb", AM: "3"})
	d = nil
	for s := n / 2; s < n; s += 16 {
		d = append(d, s+2, s+1) // s+2 had climbed next to s+3's slot; s+1 twins with s
	}
	bs = append(bs, Block{Del: d, Add: 0, DM: "scale-climb2", AM: "0"})
	d = nil
	for s := n/4 - 1; s >= 0; s-- { // the first quarter (a left child of a left child), descending order
		d = append(d, s)
	}
	bs = append(bs, Block{Del: d, Add: 2, DM: "scale-quarter", AM: "2"})
	d = nil
	for s := n / 4; s < n/2; s++ { // the second quarter: the left half is now empty
		d = append(d, s)
	}
	bs = append(bs, Block{Del: d, Add: 5, Rem: []int{4}, DM: "scale-quarter2", AM: "5"})
	d = nil
	for s := n / 2; s < n; s += 16 {
		d = append(d, s) // climbed (its twin s+1 went in block 2)
		d = append(d, s+4, s+5, s+6)
		d = append(d, s+10, s+8, s+9) // s+10 climbed next to the parent that the twins s+8, s+9 form in this very block
		if s%32 == 0 {
			d = append(d, s+12, s+13, s+14)
		}
	}
	bs = append(bs, Block{Del: d, Add: n/2 + 7, DM: "scale-mixed", AM: "pow2+"})
	d = nil
	for s := n; s < n+n/2; s += 2 {
		d = append(d, s)
	}
	bs = append(bs, Block{Del: d, Add: 1, Rem: []int{0}, DM: "scale-final", AM: "1"})
	return bs
}

// wideBlockHistory: a single block adding more than 65535 leaves (a 16-bit addition counter wraps)
// on top of a forest whose trees are partly empty roots, which that block writes over; then a
// block deleting across the new leaves.
func wideBlockHistory(adds int) []Block {
	const big, mid = 1 << 15, 1 << 14 // trees of 32768, 16384, 4 and 1 leaves
	n0 := big + mid + 5
	var bs []Block
	bs = append(bs, Block{Add: n0, Rem: []int{0, 3, big, n0 - 1}, DM: "none", AM: "wide-setup"})
	// the 16384-, 4- and 1-leaf trees become empty roots: the first two go after 1 and 3 additions, the
	// large one only after 16384 additions of the wide block
	var d []int
	for s := big; s < n0; s++ {
		d = append(d, s)
	}
	bs = append(bs, Block{Del: d, Add: 0, DM: "wide-empty-roots", AM: "0"})
	bs = append(bs, Block{Del: []int{3}, Add: adds, Rem: []int{0, 1, adds - 1}, DM: "wide", AM: "wide"})
	d = []int{n0, n0 + adds - 1}
	for s := n0 + 100; s < n0+adds; s += 4099 {
		d = append(d, s)
	}
	bs = append(bs, Block{Del: d, Add: 3, Rem: []int{2}, DM: "wide-after", AM: "3"})
	return bs
}

func scaleSizes() []int {
	if thorough() {
		return []int{1 << 10, 1 << 12, 1 << 13, 1 << 14, 1 << 15}
	}
	return []int{1 << 9, 1 << 12, 1 << 13}
}

func preScaleC01(t *testing.T) {
	if *flagNoExh {
		return
	}
	shard, nshards := shardOf()
	unit, done := 0, 0
	for _, n := range scaleSizes() {
		for _, maps := range [][]Cfg{{{Kind: "map", Full: true, Rows: 63}, {Kind: "map", Rows: 0}}, {{Kind: "map", Full: true, Rows: 0}, {Kind: "map", Rows: 63, Direct: true}}} {
			unit++
			if (unit-1)%nshards != shard {
				continue
			}
			for _, hist := range [][]Block{scaleHistory(n), emptyTreeHistory(n)} {
				c := C01Case{Blocks: hist, Maps: maps}
				res := safeRun(runC01, c)
				done++
				if res.Err != nil {
					rec.fail(res.Err.Error(), caseJSON(c), false)
					t.Fatalf("scale probe (n=%d): %v", n, res.Err)
				}
			}
		}
	}
	unit++
	if (unit-1)%nshards == shard {
		c := C01Case{Blocks: wideBlockHistory(70001), Maps: []Cfg{{Kind: "map", Full: true, Rows: 63}, {Kind: "map", Rows: 0}}}
		res := safeRun(runC01, c)
		done++
		if res.Err != nil {
			rec.fail(res.Err.Error(), caseJSON(c), false)
			t.Fatalf("wide-block probe: %v", res.Err)
		}
	}
	rec.bulk(done, done)
	rec.extra("scale_probes", fmt.Sprintf("deterministic histories on %v leaves (leaves climbing two rows, a half emptied with n/2 targets, climbed leaves deleted together with row-0 twins, power-of-two crossing), each on 2 map configurations, dealt over shards; plus one block adding 70001 leaves over empty roots", scaleSizes()))
}

func preScaleC02(t *testing.T) {
	if *flagNoExh {
		return
	}
	shard, nshards := shardOf()
	unit, done := 0, 0
	for _, n := range scaleSizes() {
		unit++
		if (unit-1)%nshards != shard {
			continue
		}
		bs := scaleHistory(n)
		c := C02Case{Blocks: bs, Maps: []Cfg{{Kind: "map", Full: true, Rows: 63}, {Kind: "map", Rows: 0}, {Kind: "map", Full: true, Rows: 0}}}
		// requests after each block: every 2nd / every 3rd live leaf in a stride-permuted order, and all of them
		live := map[int]bool{}
		next := 0
		for _, b := range bs {
			for _, s := range b.Del {
				delete(live, s)
			}
			for k := 0; k < b.Add; k++ {
				live[next+k] = true
			}
			next += b.Add
			var all []int
			for s := 0; s < next; s++ {
				if live[s] {
					all = append(all, s)
				}
			}
			var reqs [][]int
			if len(all) > 0 {
				var a, b3 []int
				for i := 0; i < len(all); i += 2 {
					a = append(a, all[(i*7919)%len(all)])
				}
				seen := map[int]bool{}
				var au []int
				for _, s := range a {
					if !seen[s] {
						seen[s] = true
						au = append(au, s)
					}
				}
				for i := len(all) - 1; i >= 0; i -= 3 {
					b3 = append(b3, all[i])
				}
				reqs = [][]int{au, b3, all}
			}
			c.Reqs = append(c.Reqs, reqs)
		}
		res := safeRun(runC02, c)
		done++
		if res.Err != nil {
			rec.fail(res.Err.Error(), caseJSON(c), false)
			t.Fatalf("scale probe (n=%d): %v", n, res.Err)
		}
	}
	rec.bulk(done, done)
	rec.extra("scale_probes", fmt.Sprintf("deterministic histories on %v leaves with prove requests for a stride-permuted half, a descending third and all live leaves after every block, dealt over shards", scaleSizes()))
}

// preScaleC06: the scale history applied, then undone block by block down to depth 3, then a
// different branch (salted leaves) applied on top, then everything undone again.
func preScaleC06(t *testing.T) {
	if *flagNoExh {
		return
	}
	shard, nshards := shardOf()
	unit, done := 0, 0
	sizes := []int{1 << 9, 1 << 13}
	if thorough() {
		sizes = []int{1 << 10, 1 << 12, 1 << 13, 1 << 14}
	}
	for _, n := range sizes {
		for _, cfgs := range [][]Cfg{{{Kind: "pollard"}, {Kind: "map", Full: true, Rows: 63}, {Kind: "map", Rows: 63}}, {{Kind: "pollard"}, {Kind: "map", Full: true, Rows: 0}, {Kind: "map", Rows: 0, Direct: true}}} {
			unit++
			if (unit-1)%nshards != shard {
				continue
			}
			bs := scaleHistory(n)
			c := C06Case{Cfgs: cfgs}
			for i := range bs {
				b := bs[i]
				c.Steps = append(c.Steps, C06Step{Op: "block", B: &b})
			}
			for k := 0; k < 3; k++ {
				c.Steps = append(c.Steps, C06Step{Op: "undo"})
			}
			// another branch from the state after block 2: different leaves, the whole left half again
			alt := bs[4]
			alt.Salt, alt.Add, alt.Rem = 1, 9, []int{0, 8}
			c.Steps = append(c.Steps, C06Step{Op: "block", B: &alt}, C06Step{Op: "undo"}, C06Step{Op: "undo"}, C06Step{Op: "undo"}, C06Step{Op: "undo"}, C06Step{Op: "undo"})
			res := safeRun(runC06, c)
			done++
			if res.Err != nil {
				rec.fail(res.Err.Error(), caseJSON(c), false)
				t.Fatalf("scale probe (n=%d): %v", n, res.Err)
			}
		}
	}
	unit++
	if (unit-1)%nshards == shard {
		// one block adding more than 65535 leaves over empty roots, undone, re-applied on another branch, all undone
		bs := wideBlockHistory(70001)
		c := C06Case{Cfgs: []Cfg{{Kind: "pollard"}, {Kind: "map", Full: true, Rows: 63}, {Kind: "map", Rows: 63}, {Kind: "map", Rows: 0, Direct: true}}}
		for i := range bs {
			b := bs[i]
			c.Steps = append(c.Steps, C06Step{Op: "block", B: &b})
		}
		alt := bs[2]
		alt.Salt = 1
		c.Steps = append(c.Steps, C06Step{Op: "undo"}, C06Step{Op: "undo"}, C06Step{Op: "block", B: &alt}, C06Step{Op: "undo"}, C06Step{Op: "undo"}, C06Step{Op: "undo"})
		res := safeRun(runC06, c)
		done++
		if res.Err != nil {
			rec.fail(res.Err.Error(), caseJSON(c), false)
			t.Fatalf("wide-block probe: %v", res.Err)
		}
	}
	rec.bulk(done, done)
	rec.extra("scale_probes", fmt.Sprintf("one block adding 70001 leaves over empty roots applied, undone, re-applied on another branch and undone; deterministic history on %v leaves (blocks with up to n/2 targets incl. climbed leaves), undone to depth 3, another branch applied and everything undone to the empty forest, on 2 configurations each", sizes))
}

// scaleHistoryRem is scaleHistory with a sparse set of leaves of the first block remembered (every
// (n/16)-th leaf plus the first three), so that a light client / partial forest holds a SMALL cache
// next to blocks with thousands of targets.
func scaleHistoryRem(n int) []Block {
	bs := scaleHistory(n)
	for i := 0; i < n; i += n / 16 {
		bs[0].Rem = append(bs[0].Rem, i)
		if i+9 < n {
			bs[0].Rem = append(bs[0].Rem, i+9)
		}
	}
	bs[0].Rem = append(bs[0].Rem, n-1)
	return bs
}

func scaleUnits(sizes []int, t *testing.T, run func(n int) (*Result, []byte)) int {
	if *flagNoExh {
		return 0
	}
	shard, nshards := shardOf()
	done := 0
	for i, n := range sizes {
		if i%nshards != shard {
			continue
		}
		res, cj := run(n)
		done++
		for _, cl := range res.Classes {
			if cl == "setup-failed" {
				// the probe could not get past building its state: inconclusive (exit 2), never a violation
				t.Fatalf("INFRA: scale probe (n=%d) did not run (setup-failed); it asserts nothing", n)
			}
		}
		if res.Err != nil {
			rec.fail(res.Err.Error(), cj, false)
			t.Fatalf("scale probe (n=%d): %v", n, res.Err)
		}
	}
	rec.bulk(done, done)
	return done
}

func probeSizes(quick, full []int) []int {
	if thorough() {
		return full
	}
	return quick
}

// preScaleC07: the remembered scale history through Stump.Update / Proof.Update, plain and embedded.
func preScaleC07(t *testing.T) {
	sizes := probeSizes([]int{1 << 9, 1 << 12}, []int{1 << 10, 1 << 12, 1 << 14})
	scaleUnits(sizes, t, func(n int) (*Result, []byte) {
		c := C07Case{Blocks: scaleHistoryRem(n), High: 1 << 40}
		if res := safeRun(runC07, c); res.Err != nil {
			return res, caseJSON(c)
		}
		c = C07Case{Blocks: emptyTreeHistory(n), High: 1 << 36}
		return safeRun(runC07, c), caseJSON(c)
	})
	rec.extra("scale_probes", fmt.Sprintf("deterministic history on %v leaves with a sparse remembered set (blocks of up to n/2 deletions), also embedded behind 2^40 opaque leaves", sizes))
}

// preScaleC08: the same, then undone block by block (depth 3), another branch, undone to the start.
func preScaleC08(t *testing.T) {
	sizes := probeSizes([]int{1 << 9, 1 << 12}, []int{1 << 10, 1 << 12, 1 << 14})
	scaleUnits(sizes, t, func(n int) (*Result, []byte) {
		bs := scaleHistoryRem(n)
		c := C08Case{High: 1 << 33}
		for i := range bs {
			b := bs[i]
			c.Steps = append(c.Steps, C06Step{Op: "block", B: &b})
		}
		for k := 0; k < 3; k++ {
			c.Steps = append(c.Steps, C06Step{Op: "undo"})
		}
		alt := bs[4]
		alt.Salt, alt.Add, alt.Rem = 1, 9, []int{0, 8}
		c.Steps = append(c.Steps, C06Step{Op: "block", B: &alt}, C06Step{Op: "undo"}, C06Step{Op: "undo"}, C06Step{Op: "undo"}, C06Step{Op: "undo"}, C06Step{Op: "undo"})
		return safeRun(runC08, c), caseJSON(c)
	})
	rec.extra("scale_probes", fmt.Sprintf("deterministic history on %v leaves with a sparse cached set, undone to depth 3, another branch, undone to the empty accumulator; also embedded behind 2^33 opaque leaves", sizes))
}

// preScaleC10: look-ups on a large forest (tens of thousands of tracked leaves in the thorough tier).
func preScaleC10(t *testing.T) {
	sizes := probeSizes([]int{1 << 9, 1 << 11}, []int{1 << 10, 1 << 13, 1 << 15})
	scaleUnits(sizes, t, func(n int) (*Result, []byte) {
		bs := scaleHistoryRem(n)
		c := C10Case{Cfgs: []Cfg{{Kind: "pollard"}, {Kind: "map", Full: true, Rows: 63}, {Kind: "map", Rows: 0}}}
		for i := range bs {
			b := bs[i]
			c.Steps = append(c.Steps, C10Step{Op: "block", B: &b})
			if i == 2 {
				c.Steps = append(c.Steps, C10Step{Op: "restore"})
			}
		}
		c.Steps = append(c.Steps, C10Step{Op: "undo"}, C10Step{Op: "undo"})
		return safeRun(runC10, c), caseJSON(c)
	})
	rec.extra("scale_probes", fmt.Sprintf("deterministic history on %v leaves with restore and two undos; every look-up probed after every step", sizes))
}

// preScaleC14: proof algebra on many targets and many trees.
func preScaleC14(t *testing.T) {
	sizes := probeSizes([]int{1022, 3000}, []int{1022, 3000, 9000})
	scaleUnits(sizes, t, func(n int) (*Result, []byte) {
		c := c14Probe(n)
		return safeRun(runC14, c), caseJSON(c)
	})
	rec.extra("scale_probes", fmt.Sprintf("deterministic states on %v leaves (9+ trees): 20 old targets combined with / completed by up to 1200 newer ones", sizes))
}

func c14Probe(n int) C14Case {
	c := C14Case{Rows: 63, Rel: "scale"}
	b0 := Block{Add: n, Rem: []int{0, 5, n - 2}}
	c.Steps = append(c.Steps, WStep{Op: "block", B: &b0})
	var d []int
	for s := 3; s < n/2; s += 7 {
		d = append(d, s)
	}
	b1 := Block{Del: d, Add: 0}
	c.Steps = append(c.Steps, WStep{Op: "block", B: &b1})
	dead := map[int]bool{}
	for _, s := range d {
		dead[s] = true
	}
	// A: a few old leaves plus the last-but-one leaf; B: many newer leaves plus the last leaf (the
	// two proofs meet only in the smallest trees)
	for s := 5; len(c.A) < 20 && s < n/2; s += 11 {
		if !dead[s] && !dead[s^1] { // still on row 0: every held position lies before the wanted ones
			c.A = append(c.A, s)
		}
	}
	if n == 1022 {
		c.A = append(c.A, n-2)
	}
	step := 1
	if n == 1022 {
		step = 2
	}
	for s := n - 1; len(c.B) < 1300 && s > n/2; s -= step {
		c.B = append(c.B, s)
	}
	// restriction: a proof of ~1500 leaves cut down to ~1100 of them in another order
	c.Wants = append([]int(nil), c.A...)
	c.Req = []int{1, n - 3}
	return c
}

// preScaleC11: UpdateData of the scale history, plain and embedded behind 2^45 opaque leaves.
func preScaleC11(t *testing.T) {
	sizes := probeSizes([]int{1 << 9, 1 << 12}, []int{1 << 10, 1 << 13, 1 << 15})
	scaleUnits(sizes, t, func(n int) (*Result, []byte) {
		c := C11Case{Blocks: scaleHistory(n), High: 1 << 45}
		if res := safeRun(runC11, c); res.Err != nil {
			return res, caseJSON(c)
		}
		c = C11Case{Blocks: emptyTreeHistory(n), High: 1 << 45}
		return safeRun(runC11, c), caseJSON(c)
	})
	rec.extra("scale_probes", fmt.Sprintf("deterministic history on %v leaves (blocks with thousands of deletions and additions), also embedded behind 2^45 opaque leaves", sizes))
}

// preScaleC17: the scale history with guarded slices, every second block applied, undone and re-applied.
func preScaleC17(t *testing.T) {
	sizes := probeSizes([]int{1 << 9, 1 << 11}, []int{1 << 10, 1 << 12, 1 << 14})
	scaleUnits(sizes, t, func(n int) (*Result, []byte) {
		bs := scaleHistoryRem(n)
		c := C17Case{Maps: []Cfg{{Kind: "map", Full: true, Rows: 0}, {Kind: "map", Rows: 63}}}
		live := map[int]bool{}
		next := 0
		for i, b := range bs {
			cb := C17Block{B: b, UndoRedo: i%2 == 1, PolRem: i%3 == 0}
			// a second target set for AddProof and a restriction request, both from what is live before the block
			for s := next - 1; s >= 0 && len(cb.Other) < 40; s -= 3 {
				if live[s] {
					cb.Other = append(cb.Other, s)
				}
			}
			for k := 0; k < len(b.Del); k += 2 {
				cb.Wants = append(cb.Wants, len(b.Del)-1-k)
			}
			c.Blocks = append(c.Blocks, cb)
			for _, s := range b.Del {
				delete(live, s)
			}
			for k := 0; k < b.Add; k++ {
				live[next+k] = true
			}
			next += b.Add
		}
		return safeRun(runC17, c), caseJSON(c)
	})
	rec.extra("scale_probes", fmt.Sprintf("deterministic history on %v leaves with guarded slices of thousands of elements; every second block undone and re-applied", sizes))
}

// preScaleC09: a partial forest through the scale history with a sparse remembered set, a Prune of
// dozens of leaves in one call, undo, Verify(remember) of hundreds of leaves, Prune of everything.
func preScaleC09(t *testing.T) {
	sizes := probeSizes([]int{1 << 9, 1 << 11}, []int{1 << 10, 1 << 12, 1 << 13})
	scaleUnits(sizes, t, func(n int) (*Result, []byte) {
		bs := scaleHistoryRem(n)
		c := C09Case{Rows: 63}
		if n == 1<<11 || n == 1<<12 {
			c.Rows = 0
		}
		tracked := map[int]bool{}
		live := map[int]bool{}
		next := 0
		for i := range bs {
			b := bs[i]
			if i == 1 {
				// remember a few hundred more leaves first, so that the cache is large when blocks empty subtrees
				var set []int
				for s := n/2 + 1; s < n && len(set) < 300; s += 3 {
					if live[s] && !inSet(b.Del, s) {
						set = append(set, s)
					}
				}
				c.Steps = append(c.Steps, C09Step{Op: "verify", Set: set})
				for _, s := range set {
					tracked[s] = true
				}
			}
			c.Steps = append(c.Steps, C09Step{Op: "block", B: &b})
			for _, s := range b.Del {
				delete(live, s)
				delete(tracked, s)
			}
			for k := 0; k < b.Add; k++ {
				live[next+k] = true
			}
			for _, r := range b.Rem {
				tracked[next+r] = true
			}
			next += b.Add
			if i == 2 {
				// one Prune call for most of the cache
				var set []int
				for s := 0; s < next; s++ {
					if tracked[s] && s%5 != 0 {
						set = append(set, s)
					}
				}
				if len(set) > 0 {
					c.Steps = append(c.Steps, C09Step{Op: "prune", Set: set})
					for _, s := range set {
						delete(tracked, s)
					}
				}
			}
		}
		c.Steps = append(c.Steps, C09Step{Op: "undo"}, C09Step{Op: "undo"})
		return safeRun(runC09, c), caseJSON(c)
	})
	rec.extra("scale_probes", fmt.Sprintf("partial forest through the scale history on %v leaves: Verify(remember) of 300 leaves, blocks emptying subtrees of 9+ rows, one Prune call for most of the cache, two undos; sandwich invariant after every step", sizes))
}

// emptyTreeHistory: two trees (n and n/2 leaves); the whole n/2-leaf tree is emptied; a later block
// adds n/2+40 leaves, so the empty root (row log2(n/2)) is written over only after n/2 additions of
// that block; then some of the new leaves are spent. n must be a power of two >= 64.
func emptyTreeHistory(n int) []Block {
	var bs []Block
	bs = append(bs, Block{Add: n + n/2, Rem: []int{0, 7, n - 1, n + 1}, DM: "none", AM: "scale"})
	var d []int
	for k := 0; k < n/2; k++ {
		d = append(d, n+(k*37)%(n/2)) // 37 is odd: a permutation of the n/2 slots
	}
	bs = append(bs, Block{Del: d, DM: "scale-whole-tree", AM: "0"})
	bs = append(bs, Block{Add: n/2 + 40, Rem: []int{0, 1, n / 4, n/2 + 39}, DM: "none", AM: "scale-overwrite"})
	d = nil
	for s2 := n + n/2; s2 < 2*n+40; s2 += 3 {
		d = append(d, s2)
	}
	bs = append(bs, Block{Del: d, Add: 3, Rem: []int{2}, DM: "scale-third", AM: "3"})
	return bs
}

// preHighC13: serialization of a map forest whose leaf count does not fit 32 (or 48) bits. A partial
// forest is started from the bare roots of a small generated-by-hand forest embedded behind 2^k (+2^j)
// opaque leaves, remembers a few leaves through Verify, is written, restored through a one-byte reader,
// and both copies take two more blocks (additions only, then a deletion of a remembered leaf). Leaf
// count, roots, every stored node, the remembered leaves' positions and every strict prefix of the
// stream are compared. Deterministic, dealt over shards.
func preHighC13(t *testing.T) {
	if *flagNoExh {
		return
	}
	shard, nshards := shardOf()
	highs := []uint64{1 << 31, 1 << 32, 1<<32 | 1<<40, 1 << 47, 1 << 48, 1<<56 | 1<<33, 1 << 62, 1<<62 | 1<<61}
	done := 0
	for ui, high := range highs {
		if ui%nshards != shard {
			continue
		}
		for _, small := range [][]Block{
			{{Add: 5}, {Del: []int{1}, Add: 0}},
			{{Add: 12}, {Del: []int{0, 1, 6}, Add: 1}},
			{{Add: 7}},
		} {
			done++
			c := C13Case{HighProbe: &c13High{High: high, Blocks: small}}
			if res := safeRun(runC13, c); res.Err != nil {
				rec.fail(res.Err.Error(), caseJSON(c), false)
				t.Fatalf("serialization probe behind %d opaque leaves: %v", high, res.Err)
			}
		}
	}
	rec.bulk(done, done)
	rec.extra("huge_leaf_count_probes", "a partial map forest started from bare roots with 2^31 .. 2^62+2^61 opaque leaves in front of a small real forest: written, restored (whole and every strict prefix), continued with two blocks on both copies")
}

func highC13Unit(high uint64, blocks []Block) error {
	f := &model.Forest{}
	for _, b := range blocks {
		applyToModel(f, b)
	}
	v := f.View()
	if !highOK(high, f.N()+8) {
		return fmt.Errorf("harness error: %d leaves do not fit below %d", f.N()+8, high)
	}
	roots := append(highRoots(high), v.Roots...)
	m := u.NewMapPollardFromRoots(cloneHashes(roots), high+v.N, false)
	live := f.Live()
	req := []int{live[0], live[len(live)-1]}
	hs := f.HashesOf(req)
	pr := v.Proof(hs)
	ep := u.Proof{Targets: embedAll(pr.Targets, v, high), Proof: cloneHashes(pr.Proof)}
	if err := m.Verify(cloneHashes(hs), cloneProof(ep), true); err != nil {
		return fmt.Errorf("setup: Verify(remember) of an honest embedded proof failed: %v", err)
	}
	var buf bytes.Buffer
	n, err := m.Write(&buf)
	if err != nil || n != buf.Len() {
		return fmt.Errorf("Write: %d bytes reported, %d produced, err %v", n, buf.Len(), err)
	}
	stream := buf.Bytes()
	orig := &Inst{Cfg: Cfg{Kind: "map", Rows: 63}, M: &m}
	rest, k, rerr, perr := restore(orig.Cfg, &chunkReader{data: stream, sizes: []int{1}})
	if perr != nil || rerr != nil {
		return fmt.Errorf("restoring the %d-byte stream failed: %v %v", len(stream), rerr, perr)
	}
	if k != len(stream) {
		return fmt.Errorf("Read reported %d bytes for a %d-byte stream", k, len(stream))
	}
	same := func(what string) error {
		if err := sameState(orig, rest, 40, hs); err != nil {
			return fmt.Errorf("%s: original vs restored: %v", what, err)
		}
		if orig.M.GetTreeRows() != rest.M.GetTreeRows() {
			return fmt.Errorf("%s: GetTreeRows %d vs %d", what, orig.M.GetTreeRows(), rest.M.GetTreeRows())
		}
		for _, p := range ep.Targets {
			if x, y := orig.M.GetHash(p), rest.M.GetHash(p); x != y {
				return fmt.Errorf("%s: GetHash(%d): %s vs %s", what, p, shortH(x), shortH(y))
			}
		}
		pa, ea := orig.M.Prove(cloneHashes(hs[:1]))
		pb, eb := rest.M.Prove(cloneHashes(hs[:1]))
		if (ea == nil) != (eb == nil) || !eqProof(pa, pb) {
			return fmt.Errorf("%s: Prove of a remembered leaf: %s,%v vs %s,%v", what, proofStr(pa), ea, proofStr(pb), eb)
		}
		return nil
	}
	if err := same("after restore"); err != nil {
		return err
	}
	if orig.NumLeaves() != high+v.N {
		return fmt.Errorf("leaf count %d, want %d", orig.NumLeaves(), high+v.N)
	}
	// strict prefixes are refused or, if accepted, equal (never the case for a strict prefix of this format)
	for cut := 0; cut < len(stream); cut++ {
		in, _, e, pe := restore(orig.Cfg, bytes.NewReader(stream[:cut]))
		if pe != nil {
			return fmt.Errorf("restoring the first %d of %d bytes panicked: %v", cut, len(stream), pe)
		}
		if e == nil {
			if err := sameState(orig, in, 40, hs); err != nil {
				return fmt.Errorf("the first %d of %d bytes were accepted and give a different forest: %v", cut, len(stream), err)
			}
		}
	}
	// both copies go on: additions only, then the second remembered leaf is spent
	adds, _ := mkLeavesSalt(9, len(f.Hashes), 3, func(int) bool { return true })
	for _, in := range []*Inst{orig, rest} {
		if err := in.M.Modify(append([]u.Leaf(nil), adds...), nil, u.Proof{}); err != nil {
			return fmt.Errorf("an additions-only block after the restore failed: %v", err)
		}
	}
	if err := same("after an additions-only block"); err != nil {
		return err
	}
	g := f.Clone()
	applyToModel(g, Block{Add: 3, Salt: 9})
	gv := g.View()
	dh := g.HashesOf(req[1:])
	dp := gv.Proof(dh)
	edp := u.Proof{Targets: embedAll(dp.Targets, gv, high), Proof: cloneHashes(dp.Proof)}
	for _, in := range []*Inst{orig, rest} {
		if err := in.M.Modify(nil, cloneHashes(dh), cloneProof(edp)); err != nil {
			return fmt.Errorf("spending a remembered leaf after the restore failed: %v", err)
		}
	}
	applyToModel(g, Block{Del: req[1:]})
	want := append(highRoots(high), g.View().Roots...)
	if !eqHashes(orig.Roots(), want) {
		return fmt.Errorf("after the continuation the roots are %s, the embedded reference %s", shortHs(orig.Roots()), shortHs(want))
	}
	return same("after spending a remembered leaf")
}

package props

// C11 - update data describes exactly what the block changed. Every expectation is derived
// from the reference model; nothing calls Stump.add / calculateHashes to compute it.

import (
	"fmt"
	"sort"
	"testing"

	u "github.com/utreexo/utreexo"
	"pgregory.net/rapid"
	"verifharness/model"
)

type C11Case struct {
	Blocks []Block `json:"blocks"`
	// High > 0: a second stump holding High opaque leaves in front of the same forest gets the same
	// blocks (positions shifted into its layout); its UpdateData must be the shifted expectation.
	High uint64 `json:"high,omitempty"`
	// Args: how the caller lays out the block data it hands to Update. "" - three independent
	// exact-size copies; "nil" - every empty list is a nil slice (the README's deletion example passes nil
	// additions); "onebuf" - deletions and additions are the two halves buf[:d], buf[d:] of ONE array (so
	// the deletions' spare capacity is the additions), the proof hashes have spare capacity as well.
	Args string `json:"args,omitempty"`
}

// c11Args lays the block data out as the case says.
func c11Args(mode string, delH, addH []Hash, proof u.Proof) ([]Hash, []Hash, u.Proof, error) {
	d, a, p := cloneHashes(delH), cloneHashes(addH), cloneProof(proof)
	switch mode {
	case "":
	case "nil":
		if len(d) == 0 {
			d = nil
		}
		if len(a) == 0 {
			a = nil
		}
		if len(p.Targets) == 0 {
			p.Targets = nil
		}
		if len(p.Proof) == 0 {
			p.Proof = nil
		}
	case "onebuf":
		buf := make([]Hash, len(delH)+len(addH))
		copy(buf, delH)
		copy(buf[len(delH):], addH)
		d, a = buf[:len(delH)], buf[len(delH):]
		ph := make([]Hash, len(proof.Proof), len(proof.Proof)+len(delH)+4)
		copy(ph, proof.Proof)
		p.Proof = ph
	default:
		return nil, nil, p, fmt.Errorf("case error: argument layout %q", mode)
	}
	return d, a, p, nil
}

// survivorHash is the hash of the pre-block node n once the given slots are deleted:
// zero if nothing under it survives, the lone surviving child's hash if one side is gone.
func survivorHash(n *model.Node, gone map[int]bool) (Hash, bool) {
	if n.IsLeaf() {
		if gone[n.Slot] {
			return Hash{}, false
		}
		return n.Hash, true
	}
	l, lok := survivorHash(n.L, gone)
	r, rok := survivorHash(n.R, gone)
	switch {
	case lok && rok:
		return model.ParentHash(l, r), true
	case lok:
		return l, true
	case rok:
		return r, true
	}
	return Hash{}, false
}

func hasNewLeaf(n *model.Node, firstNew int) bool {
	if n.IsLeaf() {
		return n.Slot >= firstNew
	}
	return hasNewLeaf(n.L, firstNew) || hasNewLeaf(n.R, firstNew)
}

type posHash struct {
	pos uint64
	h   Hash
}

func sortPH(x []posHash) {
	sort.Slice(x, func(i, j int) bool { return x[i].pos < x[j].pos })
}

func fmtPH(x []posHash) string {
	s := "["
	for i, e := range x {
		if i > 0 {
			s += " "
		}
		s += fmt.Sprintf("%d:%s", e.pos, shortH(e.h))
	}
	return s + "]"
}

func zipPH(pos []uint64, hs []Hash) ([]posHash, error) {
	if len(pos) != len(hs) {
		return nil, fmt.Errorf("%d positions but %d hashes", len(pos), len(hs))
	}
	out := make([]posHash, len(pos))
	for i := range pos {
		out[i] = posHash{pos[i], hs[i]}
	}
	return out, nil
}

func eqPH(a, b []posHash) bool {
	if len(a) != len(b) {
		return false
	}
	for i := range a {
		if a[i] != b[i] {
			return false
		}
	}
	return true
}

// expectedUpdateData derives the update data of block b applied to state f from the model.
func expectedUpdateData(f *model.Forest, b Block) (prevN uint64, toDestroy []uint64, del, add []posHash) {
	v := f.View()
	prevN = v.N
	gone := map[int]bool{}
	for _, s := range b.Del {
		gone[s] = true
	}
	// deletions: every pre-block node on a path target -> root, with its hash after the deletions
	seen := map[uint64]bool{}
	for _, s := range b.Del {
		for n := v.NodeAt[v.SlotPos[s]]; n != nil; n = n.Up {
			if seen[n.Pos] {
				break
			}
			seen[n.Pos] = true
			h, _ := survivorHash(n, gone)
			del = append(del, posHash{n.Pos, h})
		}
	}
	sortPH(del)
	// after the deletions
	mid := f.Clone()
	for _, s := range b.Del {
		mid.Kill(s)
	}
	vm := mid.View()
	after := mid.Clone()
	for i := 0; i < b.Add; i++ {
		after.Add(leafHashOf(b.Salt, len(after.Hashes)))
	}
	va := after.View()
	// destroyed roots: simulate the binary addition over the emptiness of the existing trees
	type tr struct {
		height uint8
		first  uint64
		empty  bool
	}
	var trees []tr
	for _, t := range vm.Trees {
		trees = append(trees, tr{t.Height, t.First, t.Root == nil})
	}
	n := vm.N
	for i := 0; i < b.Add; i++ {
		first := n
		var h uint8
		for h = 0; (n>>h)&1 == 1; h++ {
			top := trees[len(trees)-1]
			trees = trees[:len(trees)-1]
			if top.empty {
				toDestroy = append(toDestroy, model.Pos(top.height, top.first>>top.height, va.R))
			}
			first = top.first
		}
		trees = append(trees, tr{h, first, false})
		n++
	}
	// additions: every added leaf and both children of every inner node that holds a new leaf
	firstNew := len(f.Hashes)
	addSeen := map[uint64]bool{}
	put := func(nd *model.Node) {
		if !addSeen[nd.Pos] {
			addSeen[nd.Pos] = true
			add = append(add, posHash{nd.Pos, nd.Hash})
		}
	}
	for _, nd := range va.NodeAt {
		if nd.IsLeaf() {
			if nd.Slot >= firstNew {
				put(nd)
			}
			continue
		}
		if hasNewLeaf(nd, firstNew) {
			put(nd.L)
			put(nd.R)
		}
	}
	sortPH(add)
	return
}

func runC11(c C11Case) *Result {
	res := &Result{}
	f := &model.Forest{}
	var st u.Stump
	big := u.Stump{Roots: highRoots(c.High), NumLeaves: c.High}
	if c.High != 0 {
		res.class(fmt.Sprintf("embedded:rows=%d", model.Rows(c.High+1)))
	}
	if c.Args != "" {
		res.class("args:" + c.Args)
	}
	for i, b := range c.Blocks {
		for _, s := range b.Del {
			if s < 0 || s >= len(f.Dead) || f.Dead[s] {
				return res.failf("case error: block %d deletes slot %d which is not live", i, s)
			}
		}
		v := f.View()
		delH := f.HashesOf(b.Del)
		proof := v.Proof(delH)
		_, addH := mkLeavesSalt(b.Salt, len(f.Hashes), b.Add, nil)
		wantPrevN, wantDestroy, wantDel, wantAdd := expectedUpdateData(f, b)
		dArg, aArg, pArg, aerr := c11Args(c.Args, delH, addH, proof)
		if aerr != nil {
			return res.failf("%v", aerr)
		}
		ud, err := st.Update(dArg, aArg, pArg)
		if err != nil {
			res.class("setup-failed") // a valid block rejected: C01's business
			return res
		}
		where := fmt.Sprintf("block %d {del %v at positions %v, add %d} on %d leaves", i, b.Del, proof.Targets, b.Add, v.N)
		if ud.PrevNumLeaves != wantPrevN {
			return res.failf("%s: PrevNumLeaves = %d, the stump had %d leaves before the additions", where, ud.PrevNumLeaves, wantPrevN)
		}
		if !eqU64(ud.ToDestroy, wantDestroy) && !(len(ud.ToDestroy) == 0 && len(wantDestroy) == 0) {
			return res.failf("%s: ToDestroy = %v, the additions overwrite the empty roots %v (post-block coordinates, order of destruction)", where, ud.ToDestroy, wantDestroy)
		}
		gotDel, err := zipPH(ud.NewDelPos, ud.NewDelHash)
		if err != nil {
			return res.failf("%s: NewDelPos/NewDelHash: %v", where, err)
		}
		if !eqPH(gotDel, wantDel) {
			return res.failf("%s: NewDelPos/NewDelHash = %s, expected %s", where, fmtPH(gotDel), fmtPH(wantDel))
		}
		gotAdd, err := zipPH(ud.NewAddPos, ud.NewAddHash)
		if err != nil {
			return res.failf("%s: NewAddPos/NewAddHash: %v", where, err)
		}
		if !eqPH(gotAdd, wantAdd) {
			return res.failf("%s: NewAddPos/NewAddHash = %s, expected %s", where, fmtPH(gotAdd), fmtPH(wantAdd))
		}
		applyToModel(f, b)
		if c.High != 0 {
			if !highOK(c.High, f.N()) {
				return res.failf("case error: %d leaves do not fit below the opaque trees of %d leaves", f.N(), c.High)
			}
			v2 := f.View()
			bd, ba, bp, _ := c11Args(c.Args, delH, addH, u.Proof{Targets: embedAll(proof.Targets, v, c.High), Proof: proof.Proof})
			bud, err := big.Update(bd, ba, bp)
			bw := fmt.Sprintf("%s, embedded behind %d opaque leaves (%d rows)", where, c.High, model.Rows(c.High+f.N()))
			if err != nil {
				return res.failf("%s: Stump.Update rejects the block although the small stump accepts it: %v", bw, err)
			}
			if bud.PrevNumLeaves != c.High+wantPrevN {
				return res.failf("%s: PrevNumLeaves = %d, want %d", bw, bud.PrevNumLeaves, c.High+wantPrevN)
			}
			if wd := embedAll(wantDestroy, v2, c.High); !eqU64(bud.ToDestroy, wd) && !(len(bud.ToDestroy) == 0 && len(wd) == 0) {
				return res.failf("%s: ToDestroy = %v, the additions overwrite the empty roots %v", bw, bud.ToDestroy, wd)
			}
			embPH := func(x []posHash, view *model.View) []posHash {
				out := make([]posHash, len(x))
				for i, e := range x {
					out[i] = posHash{embedPos(e.pos, view, c.High), e.h}
				}
				return out
			}
			gd, err := zipPH(bud.NewDelPos, bud.NewDelHash)
			if err != nil {
				return res.failf("%s: NewDelPos/NewDelHash: %v", bw, err)
			}
			if wdl := embPH(wantDel, v); !eqPH(gd, wdl) {
				return res.failf("%s: NewDelPos/NewDelHash = %s, expected %s", bw, fmtPH(gd), fmtPH(wdl))
			}
			ga, err := zipPH(bud.NewAddPos, bud.NewAddHash)
			if err != nil {
				return res.failf("%s: NewAddPos/NewAddHash: %v", bw, err)
			}
			if wa := embPH(wantAdd, v2); !eqPH(ga, wa) {
				return res.failf("%s: NewAddPos/NewAddHash = %s, expected %s", bw, fmtPH(ga), fmtPH(wa))
			}
			wantRoots := append(highRoots(c.High), v2.Roots...)
			if big.NumLeaves != c.High+v2.N || !eqHashes(big.Roots, wantRoots) {
				return res.failf("%s: the embedded stump ends with %d leaves and roots %s, want %d and %s", bw, big.NumLeaves, shortHs(big.Roots), c.High+v2.N, shortHs(wantRoots))
			}
			res.count("embedded_blocks", 1)
		}
		if len(b.Del) >= 1 && b.Add >= 2 {
			res.NonTrivial = true
			res.count("nontrivial_blocks", 1)
		}
		if len(wantDestroy) > 0 {
			res.count("blocks_destroying_empty_roots", 1)
		}
		if len(wantDestroy) > 1 {
			res.count("blocks_destroying_2+_empty_roots", 1)
		}
	}
	res.count("blocks", len(c.Blocks))
	return res
}

func TestC11(t *testing.T) {
	runSpec(t, Spec[C11Case]{ID: "C11", Gen: func(t *rapid.T) C11Case {
		c := C11Case{Blocks: genC07(t).Blocks}
		total := 0
		for _, b := range c.Blocks {
			total += b.Add
		}
		c.High = genHigh(t, total)
		c.Args = rapid.SampledFrom([]string{"", "nil", "nil", "onebuf", "onebuf"}).Draw(t, "args")
		return c
	}, Run: runC11, Pre: preScaleC11})
}

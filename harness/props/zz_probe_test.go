package props
import ("testing"; u "github.com/utreexo/utreexo"; "verifharness/model")
func TestProbeMapTranslate(t *testing.T) {
	for _, rows := range []int{63, 0, 5} {
	m := u.NewMapPollard(true); m.TotalRows = uint8(rows)
	f := &model.Forest{}
	adds, _ := mkLeaves(0, 4, nil)
	for i:=0;i<4;i++ { f.Add(model.LeafHash(i)) }
	if err := m.Modify(adds, nil, u.Proof{}); err != nil { t.Fatal(err) }
	v := f.View()
	root := v.Roots[0]
	err := m.Verify([]Hash{root}, u.Proof{Targets: []uint64{1<<63 + 2}}, false)
	t.Logf("rows=%d totalrows=%d verify err=%v", rows, m.TotalRows, err)
	}
}

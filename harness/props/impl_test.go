package props

// Uniform wrappers around the three implementations, plus small helpers.

import (
	"bytes"
	"fmt"
	"sort"

	u "github.com/utreexo/utreexo"
	"verifharness/model"
)

type Hash = u.Hash

// Cfg selects an implementation and its configuration.
type Cfg struct {
	Kind string `json:"kind"`           // stump | pollard | map
	Full bool   `json:"full,omitempty"` // map only
	Rows int    `json:"rows,omitempty"` // map only: TotalRows set on the empty forest
	// Direct (partial map only): a block whose deletions the forest already caches is applied with
	// Modify alone, as a wallet that remembered its own leaves does; Verify(remember) is only
	// called first when some deleted leaf is not cached yet.
	Direct bool `json:"direct,omitempty"`
	// NoVerify (partial map only, set by C12 and never drawn): Apply is Modify alone, one library call;
	// the script itself contains the Verify(remember) step that a partial forest needs before a block.
	NoVerify bool `json:"noverify,omitempty"`
	// Ext (map only): the forest's two stores (NodesInterface, CachedLeavesInterface - exported so
	// that callers can plug in their own, e.g. database-backed ones) are harness implementations
	// instead of the library's maps: same map semantics, but ForEach visits in descending key order
	// and every access is counted.
	Ext bool `json:"ext,omitempty"`
}

func (c Cfg) String() string {
	if c.Kind == "map" {
		x := ""
		if c.Direct {
			x += ",direct"
		}
		if c.Ext {
			x += ",own stores"
		}
		return fmt.Sprintf("map(full=%v,rows=%d%s)", c.Full, c.Rows, x)
	}
	return c.Kind
}

// Inst is a live instance of one implementation.
type Inst struct {
	Cfg  Cfg
	S    *u.Stump
	P    *u.Pollard
	M    *u.MapPollard
	ar   arena
	held []heldResult
}

// heldResult is a slice the library RETURNED some calls ago and the caller still holds, next to a copy
// taken the moment it was returned. A library that answers from a buffer it reuses (or hands out its
// own state) changes the caller's earlier answer behind its back.
type heldResult struct {
	what string
	u64  []uint64
	u64c []uint64
	hs   []Hash
	hsc  []Hash
}

// hold takes over slices the library returned (call it when the answer has been judged): the caller
// OVERWRITES them - they are its own - and keeps them; checkHeld verifies that every slice still held
// reads as the caller left it and keeps the last few. A library answering from a buffer it reuses, or
// handing out its own state, either changes the held slice behind the caller's back or serves the
// caller's scribble as its next answer (which the ordinary oracles then see).
func (in *Inst) hold(what string, u64 []uint64, hs []Hash) {
	if in.ar.off {
		return
	}
	for i := range u64 {
		u64[i] = 0xdeadbeef00000000 + uint64(i)
	}
	for i := range hs {
		hs[i] = Hash{0xde, 0xad, byte(i)}
	}
	in.held = append(in.held, heldResult{what: what, u64: u64, u64c: cloneU64(u64), hs: hs, hsc: cloneHashes(hs)})
}

func (in *Inst) checkHeld() error {
	for _, h := range in.held {
		if !eqU64(h.u64, h.u64c) {
			return fmt.Errorf("%s: the slice returned by an earlier %s (and overwritten by the caller since) changed after later calls: the caller left %v there and now reads %v", in.Cfg, h.what, h.u64c, h.u64)
		}
		if !eqHashes(h.hs, h.hsc) {
			return fmt.Errorf("%s: the hashes returned by an earlier %s (and overwritten by the caller since) changed after later calls: the caller left %s there and now reads %s", in.Cfg, h.what, shortHs(h.hsc), shortHs(h.hs))
		}
	}
	if n := len(in.held); n > 6 {
		in.held = append(in.held[:0:0], in.held[n-6:]...)
	}
	return nil
}

// arena hands out the argument slices of successive library calls from the SAME two buffers, as a
// caller that recycles its scratch memory does: the arguments of one call are overwritten by those of
// the next. A library that keeps a reference to an argument slice (a memo keyed on the caller's slice,
// a cached proof pointing into it) then works on foreign data. nil stays nil. The slices of one call
// are consecutive regions buf[i:j], buf[j:k] of the buffer with their capacity NOT clipped (what a
// plain re-slice gives): a library that appends to an argument writes over the next argument.
type arena struct {
	off  bool // C12: calls are issued from several goroutines at once; every argument is a fresh copy instead
	h    []Hash
	u    []uint64
	l    []u.Leaf
	hOff int
	uOff int
}

// next starts the argument set of a new call.
func (a *arena) next() { a.hOff, a.uOff = 0, 0 }

func (a *arena) hashes(src []Hash) []Hash {
	if src == nil || a.off {
		return cloneHashes(src)
	}
	if a.hOff+len(src) > len(a.h) {
		a.h = append(a.h[:a.hOff:a.hOff], make([]Hash, 2*len(src)+16)...)
	}
	out := a.h[a.hOff : a.hOff+len(src)]
	a.hOff += len(src)
	copy(out, src)
	return out
}

func (a *arena) u64s(src []uint64) []uint64 {
	if src == nil || a.off {
		return cloneU64(src)
	}
	if a.uOff+len(src) > len(a.u) {
		a.u = append(a.u[:a.uOff:a.uOff], make([]uint64, 2*len(src)+16)...)
	}
	out := a.u[a.uOff : a.uOff+len(src)]
	a.uOff += len(src)
	copy(out, src)
	return out
}

func (a *arena) leaves(src []u.Leaf) []u.Leaf {
	if src == nil {
		return nil
	}
	if a.off {
		return append([]u.Leaf(nil), src...)
	}
	if len(src) > len(a.l) {
		a.l = make([]u.Leaf, 2*len(src)+16)
	}
	out := a.l[:len(src):len(src)]
	copy(out, src)
	return out
}

func (a *arena) proof(p u.Proof) u.Proof {
	return u.Proof{Targets: a.u64s(p.Targets), Proof: a.hashes(p.Proof)}
}

func newInst(c Cfg) *Inst {
	in := &Inst{Cfg: c}
	in.ar.off = c.NoVerify
	switch c.Kind {
	case "stump":
		in.S = &u.Stump{}
	case "pollard":
		p := u.NewAccumulator()
		in.P = &p
	case "map":
		m := u.NewMapPollard(c.Full)
		m.TotalRows = uint8(c.Rows)
		if c.Ext {
			extStores(&m)
		}
		in.M = &m
	default:
		panic("bad kind " + c.Kind)
	}
	return in
}

func (in *Inst) Acc() u.Utreexo {
	if in.P != nil {
		return in.P
	}
	return in.M
}

func cloneHashes(h []Hash) []Hash {
	if h == nil {
		return nil
	}
	return append(make([]Hash, 0, len(h)), h...)
}

func cloneU64(h []uint64) []uint64 {
	if h == nil {
		return nil
	}
	return append(make([]uint64, 0, len(h)), h...)
}

func cloneProof(p u.Proof) u.Proof {
	return u.Proof{Targets: cloneU64(p.Targets), Proof: cloneHashes(p.Proof)}
}

func cloneProofTH(t []uint64, h []Hash) u.Proof {
	return u.Proof{Targets: cloneU64(t), Proof: cloneHashes(h)}
}

func eqHashes(a, b []Hash) bool {
	if len(a) != len(b) {
		return false
	}
	for i := range a {
		if a[i] != b[i] {
			return false
		}
	}
	return true
}

func eqU64(a, b []uint64) bool {
	if len(a) != len(b) {
		return false
	}
	for i := range a {
		if a[i] != b[i] {
			return false
		}
	}
	return true
}

func eqProof(a, b u.Proof) bool { return eqU64(a.Targets, b.Targets) && eqHashes(a.Proof, b.Proof) }

func shortH(h Hash) string { return fmt.Sprintf("%x", h[:4]) }

func shortHs(hs []Hash) string {
	s := "["
	for i, h := range hs {
		if i > 0 {
			s += " "
		}
		s += shortH(h)
	}
	return s + "]"
}

func proofStr(p u.Proof) string {
	return fmt.Sprintf("{targets:%v proof:%s}", p.Targets, shortHs(p.Proof))
}

// Apply applies one block (already proven by the caller) to the instance. For a partial map
// forest the deletions are first verified with remember=true, as its callers must do.
// Every slice handed to the library is a copy living in the instance's recycled argument buffers
// (see arena): the caller's own slices are never exposed, and the arguments of one call are
// overwritten by those of the next.
func (in *Inst) Apply(adds []u.Leaf, delH []Hash, proof u.Proof) error {
	a := &in.ar
	a.next()
	switch {
	case in.S != nil:
		var ah []Hash // nil for a block without additions, as in the README's deletion example
		if len(adds) > 0 {
			tmp := make([]Hash, len(adds))
			for i, l := range adds {
				tmp[i] = l.Hash
			}
			ah = a.hashes(tmp)
		}
		_, err := in.S.Update(a.hashes(delH), ah, a.proof(proof))
		return err
	case in.P != nil:
		return in.P.Modify(a.leaves(adds), a.hashes(delH), a.proof(proof))
	default:
		needVerify := !in.M.Full && len(delH) > 0 && !in.Cfg.NoVerify
		if needVerify && in.Cfg.Direct {
			needVerify = false
			for _, h := range delH {
				if _, ok := in.M.CachedLeaves.Get(h); !ok {
					needVerify = true
				}
			}
		}
		if needVerify {
			if err := in.M.Verify(a.hashes(delH), a.proof(proof), true); err != nil {
				return fmt.Errorf("Verify(remember) before Modify: %w", err)
			}
			a.next()
		}
		return in.M.Modify(a.leaves(adds), a.hashes(delH), a.proof(proof))
	}
}

func (in *Inst) Roots() []Hash {
	switch {
	case in.S != nil:
		return in.S.Roots
	case in.P != nil:
		return in.P.GetRoots()
	default:
		return in.M.GetRoots()
	}
}

func (in *Inst) NumLeaves() uint64 {
	switch {
	case in.S != nil:
		return in.S.NumLeaves
	case in.P != nil:
		return in.P.GetNumLeaves()
	default:
		return in.M.GetNumLeaves()
	}
}

// checkRoots compares leaf count and roots with the model view.
func (in *Inst) checkRoots(v *model.View) error {
	if n := in.NumLeaves(); n != v.N {
		return fmt.Errorf("%s: leaf count %d, reference %d", in.Cfg, n, v.N)
	}
	r := in.Roots()
	if len(r) != len(v.Roots) {
		return fmt.Errorf("%s: %d roots, reference %d (N=%d)", in.Cfg, len(r), len(v.Roots), v.N)
	}
	for i := range r {
		if r[i] != v.Roots[i] {
			return fmt.Errorf("%s: root %d is %s, reference %s (N=%d)", in.Cfg, i, shortH(r[i]), shortH(v.Roots[i]), v.N)
		}
	}
	if in.S == nil { // a stump's Roots field is its state, not an answer
		if err := in.checkHeld(); err != nil {
			return err
		}
		in.hold("GetRoots", nil, r)
	}
	return nil
}

func mkLeaves(first, n int, remember func(i int) bool) ([]u.Leaf, []Hash) {
	return mkLeavesSalt(0, first, n, remember)
}

func mkLeavesSalt(salt, first, n int, remember func(i int) bool) ([]u.Leaf, []Hash) {
	leaves := make([]u.Leaf, n)
	hs := make([]Hash, n)
	for i := 0; i < n; i++ {
		hs[i] = leafHashOf(salt, first+i)
		leaves[i] = u.Leaf{Hash: hs[i]}
		if remember != nil {
			leaves[i].Remember = remember(i)
		}
	}
	return leaves, hs
}

func inSet(xs []int, x int) bool {
	for _, y := range xs {
		if y == x {
			return true
		}
	}
	return false
}

// ---- caller-supplied stores -----------------------------------------------------------------

type extNodes struct{ m map[uint64]u.Leaf }

func (e *extNodes) Get(k uint64) (u.Leaf, bool) { v, ok := e.m[k]; return v, ok }
func (e *extNodes) Put(k uint64, v u.Leaf)      { e.m[k] = v }
func (e *extNodes) Delete(k uint64)             { delete(e.m, k) }
func (e *extNodes) Length() int                 { return len(e.m) }
func (e *extNodes) ForEach(fn func(uint64, u.Leaf) error) error {
	keys := make([]uint64, 0, len(e.m))
	for k := range e.m {
		keys = append(keys, k)
	}
	sort.Slice(keys, func(i, j int) bool { return keys[i] > keys[j] })
	for _, k := range keys {
		v, ok := e.m[k]
		if !ok {
			continue // deleted by the callback meanwhile
		}
		if err := fn(k, v); err != nil {
			return err
		}
	}
	return nil
}

type extLeaves struct{ m map[u.Hash]uint64 }

func (e *extLeaves) Get(k u.Hash) (uint64, bool) { v, ok := e.m[k]; return v, ok }
func (e *extLeaves) Put(k u.Hash, v uint64)      { e.m[k] = v }
func (e *extLeaves) Delete(k u.Hash)             { delete(e.m, k) }
func (e *extLeaves) Length() int                 { return len(e.m) }
func (e *extLeaves) ForEach(fn func(u.Hash, uint64) error) error {
	keys := make([]u.Hash, 0, len(e.m))
	for k := range e.m {
		keys = append(keys, k)
	}
	sort.Slice(keys, func(i, j int) bool { return bytes.Compare(keys[i][:], keys[j][:]) > 0 })
	for _, k := range keys {
		v, ok := e.m[k]
		if !ok {
			continue
		}
		if err := fn(k, v); err != nil {
			return err
		}
	}
	return nil
}

// extStores replaces the stores of a map forest nobody else uses yet by the harness
// implementations (carrying over what a constructor put there).
func extStores(m *u.MapPollard) {
	n := &extNodes{m: map[uint64]u.Leaf{}}
	m.Nodes.ForEach(func(k uint64, v u.Leaf) error { n.m[k] = v; return nil })
	l := &extLeaves{m: map[u.Hash]uint64{}}
	m.CachedLeaves.ForEach(func(k u.Hash, v uint64) error { l.m[k] = v; return nil })
	m.Nodes, m.CachedLeaves = n, l
}

func (a *arena) proofTH(t []uint64, h []Hash) u.Proof {
	return u.Proof{Targets: a.u64s(t), Proof: a.hashes(h)}
}

package props

// C16 - exported position arithmetic matches the forest geometry.
//
// The oracle is the independent geometry of harness/model (row r of an R-row layout starts
// at 2^(R+1)-2^(R+1-r)); nothing here calls into /repo except the functions under test.

import (
	"fmt"
	"sort"
	"testing"

	u "github.com/utreexo/utreexo"
	"pgregory.net/rapid"
	"verifharness/model"
)

// C16Case is one query point.
type C16Case struct {
	Kind    string   `json:"kind"` // pos | leaves | offset | pp
	R       uint8    `json:"R"`
	Row     uint8    `json:"row,omitempty"`
	Off     uint64   `json:"off,omitempty"`
	N       uint64   `json:"n,omitempty"`
	Targets []uint64 `json:"targets,omitempty"`
}

// geometric tree list of n leaves: (height, first slot) highest first
func treesOf(n uint64) (hs []uint8, firsts []uint64) {
	s := uint64(0)
	for h := 63; h >= 0; h-- {
		if n&(uint64(1)<<uint(h)) != 0 {
			hs = append(hs, uint8(h))
			firsts = append(firsts, s)
			s += uint64(1) << uint(h)
		}
	}
	return
}

// geoRootOf returns the tree index and root position (layout R) of the tree whose span contains (row, off), or -1.
func geoRootOf(row uint8, off uint64, n uint64, R uint8) (int, uint64) {
	hs, firsts := treesOf(n)
	lo := off << row // first slot covered by the node
	for i := range hs {
		if hs[i] >= row && lo >= firsts[i] && lo-firsts[i] < uint64(1)<<hs[i] {
			return i, model.Pos(hs[i], firsts[i]>>hs[i], R)
		}
	}
	return -1, 0
}

// exhaustive bounds of the current tier (see exhaustiveC16)
func c16Bounds() (uint8, uint64) {
	if thorough() {
		return 9, 20
	}
	return 7, 16
}

// inExhaustive reports whether a generated point already lies in the enumerated sub-space,
// in which case it is not counted again as a distinct non-trivial case.
func inExhaustive(c C16Case) bool {
	maxR, maxN := c16Bounds()
	if c.Kind != "pp" {
		return c.R <= maxR
	}
	if c.N > maxN || (c.R != model.Rows(c.N) && c.R != model.Rows(c.N)+1 && c.R != 63) {
		return false
	}
	for _, t := range c.Targets {
		if t >= c.N {
			return false
		}
	}
	return true
}

func runC16(c C16Case) *Result {
	res := runC16inner(c)
	res.class("kind:" + c.Kind)
	if c.R >= 32 {
		res.class("R>=32")
	}
	if *flagReplay == "" && inExhaustive(c) {
		res.NonTrivial = false
		res.class("already-in-exhaustive-subspace")
	}
	return res
}

func runC16inner(c C16Case) *Result {
	res := &Result{}
	R := c.R
	if R > 63 {
		return res.failf("case error: R > 63")
	}
	switch c.Kind {
	case "pos":
		if c.Row > R || c.Off >= model.RowLen(c.Row, R) {
			return res.failf("case error: (row %d, off %d) not valid for R=%d", c.Row, c.Off, R)
		}
		r, k := c.Row, c.Off
		pos := model.Pos(r, k, R)
		res.NonTrivial = R >= 1 && r >= 1
		if g := u.DetectRow(pos, R); g != r {
			return res.failf("DetectRow(%d,%d)=%d, geometry says row %d", pos, R, g, r)
		}
		if r < R {
			want := model.Pos(r+1, k/2, R)
			if g := u.Parent(pos, R); g != want {
				return res.failf("Parent(%d,%d)=%d, geometry says %d", pos, R, g, want)
			}
		}
		if r > 0 {
			wl := model.Pos(r-1, 2*k, R)
			if g := u.LeftChild(pos, R); g != wl {
				return res.failf("LeftChild(%d,%d)=%d, geometry says %d", pos, R, g, wl)
			}
			if g := u.RightChild(pos, R); g != wl+1 {
				return res.failf("RightChild(%d,%d)=%d, geometry says %d", pos, R, g, wl+1)
			}
			// parent of child is self (mutually inverse)
			if g := u.Parent(u.LeftChild(pos, R), R); g != pos {
				return res.failf("Parent(LeftChild(%d))=%d", pos, g)
			}
			if g := u.Parent(u.RightChild(pos, R), R); g != pos {
				return res.failf("Parent(RightChild(%d))=%d", pos, g)
			}
		}
		for rise := 0; rise <= int(R)+1 && rise <= 255; rise++ {
			g, err := u.ParentMany(pos, uint8(rise), R)
			if int(r)+rise <= int(R) {
				want := model.Pos(r+uint8(rise), k>>uint(rise), R)
				if err != nil || g != want {
					return res.failf("ParentMany(%d,%d,%d)=%d,%v, geometry says %d", pos, rise, R, g, err, want)
				}
				// descending again by the same amount reaches the leftmost descendant
				d, err := u.ChildMany(g, uint8(rise), R)
				wd := model.Pos(r, (k>>uint(rise))<<uint(rise), R)
				if err != nil || d != wd {
					return res.failf("ChildMany(ParentMany(%d,%d),%d,%d)=%d,%v, geometry says %d", pos, rise, rise, R, d, err, wd)
				}
			} else if rise > int(R) && err == nil {
				return res.failf("ParentMany(%d,%d,%d) rises above the forest height without an error", pos, rise, R)
			}
		}
		for drop := 0; drop <= int(R)+1; drop++ {
			g, err := u.ChildMany(pos, uint8(drop), R)
			if drop <= int(r) {
				want := model.Pos(r-uint8(drop), k<<uint(drop), R)
				if err != nil || g != want {
					return res.failf("ChildMany(%d,%d,%d)=%d,%v, geometry says %d", pos, drop, R, g, err, want)
				}
			} else if drop > int(R) && err == nil {
				return res.failf("ChildMany(%d,%d,%d) drops below row 0 by more than the height without an error", pos, drop, R)
			}
		}
	case "leaves":
		n := c.N
		if R < 64 && n > model.RowLen(0, R) {
			return res.failf("case error: n=%d does not fit R=%d", n, R)
		}
		res.NonTrivial = n >= 2
		if g := u.TreeRows(n); g != model.Rows(n) {
			return res.failf("TreeRows(%d)=%d, want ceil(log2 n)=%d", n, g, model.Rows(n))
		}
		hs, firsts := treesOf(n)
		got := u.RootPositions(n, R)
		if len(got) != len(hs) {
			return res.failf("RootPositions(%d,%d)=%v: %d roots, binary digits of n give %d", n, R, got, len(got), len(hs))
		}
		for i := range hs {
			if want := model.Pos(hs[i], firsts[i]>>hs[i], R); got[i] != want {
				return res.failf("RootPositions(%d,%d)[%d]=%d, geometry says %d", n, R, i, got[i], want)
			}
		}
		// the caller owns the answer: it overwrites it (a sort, a translation in place ...) and asks again
		for i := range got {
			got[i] = ^uint64(0) - uint64(i)
		}
		again := u.RootPositions(n, R)
		for i := range hs {
			if i >= len(again) || again[i] != model.Pos(hs[i], firsts[i]>>hs[i], R) {
				return res.failf("RootPositions(%d,%d) asked a second time, after the caller overwrote the first answer, = %v", n, R, again)
			}
		}
	case "offset":
		// R must be Rows(n); (row, off) a node inside some tree of n
		n := c.N
		if model.Rows(n) != R || c.Row > R || c.Off >= model.RowLen(c.Row, R) {
			return res.failf("case error: offset query needs R=Rows(n) and a valid position")
		}
		pos := model.Pos(c.Row, c.Off, R)
		ti, rootPos := geoRootOf(c.Row, c.Off, n, R)
		tree, depth, bits, err := u.DetectOffset(pos, n)
		if ti < 0 {
			// not a node of the forest: nothing is promised beyond returning
			res.class("offset:outside")
			return res
		}
		res.NonTrivial = c.Row >= 1 || ti >= 1
		hs, _ := treesOf(n)
		if err != nil || int(tree) != ti || depth != hs[ti]-c.Row {
			return res.failf("DetectOffset(%d,%d)=(tree %d, depth %d, err %v), geometry says tree %d depth %d", pos, n, tree, depth, err, ti, hs[ti]-c.Row)
		}
		// walk from the root with the documented niece convention: the first step picks a child
		// of the root, every later step picks a child of the *sibling* of the current node.
		cr, ck, _ := model.RowOff(rootPos, R)
		for i := int(depth) - 1; i >= 0; i-- {
			b := (bits >> uint(i)) & 1
			if i != int(depth)-1 {
				ck ^= 1
			}
			cr, ck = cr-1, 2*ck+b
		}
		if cr != c.Row || ck != c.Off {
			return res.failf("DetectOffset(%d,%d): walking bits %b (depth %d) from root %d arrives at row %d offset %d, not at the position", pos, n, bits, depth, rootPos, cr, ck)
		}
	case "pp":
		n := c.N
		if R < model.Rows(n) {
			return res.failf("case error: R < Rows(n)")
		}
		tg := append([]uint64(nil), c.Targets...)
		if !sort.SliceIsSorted(tg, func(a, b int) bool { return tg[a] < tg[b] }) {
			return res.failf("case error: targets must be sorted (documented precondition)")
		}
		res.NonTrivial = len(tg) >= 2
		type ro struct {
			r uint8
			k uint64
		}
		path := map[uint64]bool{}
		isTarget := map[uint64]bool{}
		var comp, need []uint64
		for _, p := range tg {
			isTarget[p] = true
		}
		for _, p := range tg {
			r, k, ok := model.RowOff(p, R)
			if !ok {
				return res.failf("case error: target %d not in layout", p)
			}
			ti, rootPos := geoRootOf(r, k, n, R)
			if ti < 0 {
				return res.failf("case error: target %d not inside a tree of n=%d", p, n)
			}
			cur := p
			for {
				if path[cur] && cur != p {
					break
				}
				if cur != p && isTarget[cur] {
					return res.failf("case error: nested targets")
				}
				if cur != p {
					comp = append(comp, cur)
				}
				path[cur] = true
				if cur == rootPos {
					break
				}
				r, k = r+1, k/2
				cur = model.Pos(r, k, R)
			}
		}
		_, rootsList := treesOf(n)
		_ = rootsList
		rootSet := map[uint64]bool{}
		hs, firsts := treesOf(n)
		for i := range hs {
			rootSet[model.Pos(hs[i], firsts[i]>>hs[i], R)] = true
		}
		for p := range path {
			if !rootSet[p] && !path[p^1] {
				need = append(need, p^1)
			}
		}
		sort.Slice(need, func(a, b int) bool { return need[a] < need[b] })
		sort.Slice(comp, func(a, b int) bool { return comp[a] < comp[b] })
		before := append([]uint64(nil), tg...)
		gn, gc := u.ProofPositions(tg, n, R)
		if !eqU64(tg, before) {
			return res.failf("ProofPositions modified its targets argument")
		}
		if !eqU64(gn, need) {
			return res.failf("ProofPositions(%v,%d,%d) proof positions %v, geometry says %v", tg, n, R, gn, need)
		}
		if !eqU64(gc, comp) {
			return res.failf("ProofPositions(%v,%d,%d) computable positions %v, geometry says %v", tg, n, R, gc, comp)
		}
		if len(tg) <= 64 {
			// the caller owns both answers: it overwrites them and asks again
			for i := range gn {
				gn[i] = ^uint64(0)
			}
			for i := range gc {
				gc[i] = ^uint64(0)
			}
			gn2, gc2 := u.ProofPositions(tg, n, R)
			if !eqU64(gn2, need) || !eqU64(gc2, comp) {
				return res.failf("ProofPositions(%v,%d,%d) asked a second time, after the caller overwrote the first answers, = %v, %v; geometry says %v, %v", tg, n, R, gn2, gc2, need, comp)
			}
		}
	default:
		return res.failf("case error: unknown kind %q", c.Kind)
	}
	return res
}

// genC16 draws boundary and random points for every height, with emphasis on large heights.
func genC16(t *rapid.T) C16Case {
	kind := rapid.SampledFrom([]string{"pos", "pos", "leaves", "offset", "pp", "pp"}).Draw(t, "kind")
	R := uint8(rapid.OneOf(rapid.IntRange(0, 63), rapid.SampledFrom([]int{8, 31, 32, 33, 62, 63})).Draw(t, "R"))
	c := C16Case{Kind: kind, R: R}
	drawOff := func(row uint8, label string) uint64 {
		w := model.RowLen(row, R)
		return rapid.OneOf(rapid.Just(uint64(0)), rapid.Just(w-1), rapid.Just(w/2), rapid.Uint64Range(0, w-1)).Draw(t, label)
	}
	drawN := func(R uint8, label string) uint64 {
		// leaf counts whose Rows(n) == R
		if R == 0 {
			return uint64(rapid.IntRange(0, 1).Draw(t, label))
		}
		hi := uint64(1) << R
		lo := hi/2 + 1
		hm := hi - 1
		if hm < lo {
			hm = lo
		}
		return rapid.OneOf(rapid.Just(hi), rapid.Just(hm), rapid.Just(lo), rapid.Uint64Range(lo, hi)).Draw(t, label)
	}
	switch kind {
	case "pos":
		c.Row = uint8(rapid.IntRange(0, int(R)).Draw(t, "row"))
		c.Off = drawOff(c.Row, "off")
	case "leaves":
		if rapid.Bool().Draw(t, "fit") {
			c.N = drawN(R, "n")
		} else {
			c.N = rapid.Uint64Range(0, model.RowLen(0, R)).Draw(t, "n")
		}
	case "offset":
		c.N = drawN(R, "n")
		if c.N == 0 {
			c.N = 1
		}
		// pick a node inside a tree: choose tree, row, then offset within the tree
		hs, firsts := treesOf(c.N)
		ti := rapid.IntRange(0, len(hs)-1).Draw(t, "tree")
		c.Row = uint8(rapid.IntRange(0, int(hs[ti])).Draw(t, "row"))
		w := uint64(1) << (hs[ti] - c.Row)
		c.Off = (firsts[ti] >> c.Row) + rapid.OneOf(rapid.Just(uint64(0)), rapid.Just(w-1), rapid.Uint64Range(0, w-1)).Draw(t, "off")
	case "pp":
		// mixed-row, non-nested target sets: draw nodes inside trees, drop any that is an
		// ancestor/descendant of another.
		need := model.Rows(0)
		_ = need
		nR := uint8(rapid.IntRange(0, int(R)).Draw(t, "nrows"))
		c.N = drawN(nR, "n")
		if c.N == 0 {
			c.N = 1
		}
		hs, firsts := treesOf(c.N)
		k := rapid.IntRange(1, 8).Draw(t, "ntargets")
		type span struct{ lo, hi uint64 }
		var spans []span
		for i := 0; i < k; i++ {
			ti := rapid.IntRange(0, len(hs)-1).Draw(t, "tree")
			maxRow := int(hs[ti])
			if maxRow > 3 && rapid.IntRange(0, 3).Draw(t, "low") > 0 {
				maxRow = 3
			}
			row := uint8(rapid.IntRange(0, maxRow).Draw(t, "row"))
			w := uint64(1) << (hs[ti] - row)
			off := (firsts[ti] >> row) + rapid.OneOf(rapid.Uint64Range(0, w-1), rapid.Uint64Range(0, min64(w-1, 7))).Draw(t, "off")
			sp := span{off << row, (off + 1) << row}
			ok := true
			for _, o := range spans {
				if sp.lo < o.hi && o.lo < sp.hi {
					ok = false
				}
			}
			if ok {
				spans = append(spans, sp)
				c.Targets = append(c.Targets, model.Pos(row, off, R))
			}
		}
		sort.Slice(c.Targets, func(a, b int) bool { return c.Targets[a] < c.Targets[b] })
	}
	return c
}

// ppBigTargets builds a large non-nested target set for a forest of n leaves in the R-row layout:
// the leaves are cut into aligned groups of 4; every liftEvery-th group is claimed by ONE node
// above row 0 (its row-2 node, or the row-1 node of its left half, alternating; liftEvery+liftOff
// groups by both row-1 nodes), the other groups contribute the leaves selected by the 4-bit mask.
// Groups that do not lie inside a single tree of height >= 2 are skipped. Ascending order.
func ppBigTargets(n uint64, R uint8, mask uint64, liftEvery, liftOff uint64) []uint64 {
	hs, firsts := treesOf(n)
	var tg []uint64
	for ti := range hs {
		if hs[ti] < 2 {
			continue
		}
		for g := firsts[ti] / 4; g < (firsts[ti]+(uint64(1)<<hs[ti]))/4; g++ {
			switch {
			case g%liftEvery == 0 && (g/liftEvery)%2 == 0:
				tg = append(tg, model.Pos(2, g, R))
			case g%liftEvery == 0:
				tg = append(tg, model.Pos(1, 2*g, R))
			case g%liftEvery == liftOff:
				tg = append(tg, model.Pos(1, 2*g, R), model.Pos(1, 2*g+1, R))
			default:
				for i := uint64(0); i < 4; i++ {
					if mask&(1<<i) != 0 {
						tg = append(tg, model.Pos(0, 4*g+i, R))
					}
				}
			}
		}
	}
	sort.Slice(tg, func(a, b int) bool { return tg[a] < tg[b] })
	return tg
}

func min64(a, b uint64) uint64 {
	if a < b {
		return a
	}
	return b
}

// exhaustiveC16 enumerates the small sub-space completely: every (R<=maxR, position), every
// leaf count, every DetectOffset node, and ProofPositions for every leaf subset of n<=maxN leaves
// in the layouts R=Rows(n) and R=Rows(n)+1 and 63. Work units are dealt round-robin to shards.
func exhaustiveC16(t *testing.T, maxR uint8, maxN uint64) {
	if nsh := *flagNoExh; nsh {
		return
	}
	shard, nshards := shardOf()
	unit := 0
	mine := func() bool { unit++; return (unit-1)%nshards == shard }
	var evals, nt int
	fail := func(c C16Case, res *Result) {
		cj := caseJSON(c)
		rec.fail(res.Err.Error(), cj, false)
		t.Fatalf("exhaustive sub-space: %v (case %s)", res.Err, cj)
	}
	do := func(c C16Case) {
		res := safeRun(runC16inner, c)
		evals++
		if res.NonTrivial {
			nt++
		}
		if res.Err != nil {
			fail(c, res)
		}
	}
	for R := uint8(0); R <= maxR; R++ {
		if mine() {
			for row := uint8(0); row <= R; row++ {
				for off := uint64(0); off < model.RowLen(row, R); off++ {
					do(C16Case{Kind: "pos", R: R, Row: row, Off: off})
				}
			}
			for n := uint64(0); n <= uint64(1)<<R; n++ {
				do(C16Case{Kind: "leaves", R: R, N: n})
				if model.Rows(n) == R && n > 0 {
					for row := uint8(0); row <= R; row++ {
						for off := uint64(0); off < model.RowLen(row, R); off++ {
							do(C16Case{Kind: "offset", R: R, N: n, Row: row, Off: off})
						}
					}
				}
			}
		}
	}
	for n := uint64(1); n <= maxN; n++ {
		for _, R := range []uint8{model.Rows(n), model.Rows(n) + 1, 63} {
			// split the 2^n subsets of large n into 16 units
			parts := uint64(1)
			if n >= 12 {
				parts = 16
			}
			total := uint64(1) << n
			for part := uint64(0); part < parts; part++ {
				if !mine() {
					continue
				}
				for mask := 1 + part*total/parts; mask <= (part+1)*total/parts && mask < total; mask++ {
					var tg []uint64
					for i := uint64(0); i < n; i++ {
						if mask&(uint64(1)<<i) != 0 {
							tg = append(tg, i)
						}
					}
					do(C16Case{Kind: "pp", R: R, N: n, Targets: tg})
				}
			}
		}
	}
	// a handful of LARGE deterministic ProofPositions instances (tens of thousands of mixed-row,
	// non-nested targets): size thresholds inside the function are otherwise out of reach
	bigNs := []uint64{20000, 40001, 65536}
	if thorough() {
		bigNs = append(bigNs, 100003, 131072, 150000)
	}
	bigUnits := 0
	for _, n := range bigNs {
		for _, R := range []uint8{model.Rows(n), model.Rows(n) + 1, 63} {
			for _, mask := range []uint64{0xF, 0x5, 0xB} {
				if !mine() {
					continue
				}
				do(C16Case{Kind: "pp", R: R, N: n, Targets: ppBigTargets(n, R, mask, 7, 3)})
				bigUnits++
			}
		}
	}
	rec.addExtraCount("large_proofpositions_instances", bigUnits)
	rec.bulk(evals, nt)
	rec.extra("exhaustive_subspace", fmt.Sprintf("every position/leaf-count/DetectOffset node for heights 0..%d; ProofPositions for every non-empty leaf subset of n<=%d leaves in layouts Rows(n), Rows(n)+1, 63 (dealt over shards)", maxR, maxN))
}

func TestC16(t *testing.T) {
	runSpec(t, Spec[C16Case]{ID: "C16", Gen: genC16, Run: runC16, Pre: func(t *testing.T) {
		mr, mn := c16Bounds()
		exhaustiveC16(t, mr, mn)
	}})
}

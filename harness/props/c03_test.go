package props

// C03 - verification is sound: an accepted proof only states true facts.
//
// Oracle (one-directional on purpose): IF a verifier accepts, THEN every non-zero hash is the
// hash of the node that sits at its claimed position according to the reference model.
// Nothing is asserted about rejections.

import (
	"fmt"
	"math/bits"
	"testing"

	u "github.com/utreexo/utreexo"
	"pgregory.net/rapid"
	"verifharness/model"
)

type C03Case struct {
	Blocks []Block `json:"blocks"`
	Map    Cfg     `json:"map"`            // forest for MapPollard.Verify
	Part   Cfg     `json:"part"`           // partial forest for VerifyPartialProof (remembers Blocks[].Rem)
	High   uint64  `json:"high,omitempty"` // stand-alone Verify also runs on the state embedded under High
	Deep   int     `json:"deep,omitempty"` // >0: the state is one tree of 2^Deep leaves with only leaf 0's path known (see deepView); overrides Blocks
	Tuple  Tuple   `json:"tuple"`
	// Detour: before the claim is judged every forest takes one more block (first live leaf spent, 3
	// leaves added), verifies an honest proof in that state, and is taken back with Undo: the claim is put
	// to long-lived forests that have seen a Modify, a Verify and an Undo since the state was reached.
	Detour bool `json:"detour,omitempty"`
}

func genStateBlocks(t *rapid.T, lim limits) ([]Block, *model.Forest) {
	f := &model.Forest{}
	nb := rapid.IntRange(1, lim.maxBlocks).Draw(t, "nblocks")
	var blocks []Block
	for i := 0; i < nb; i++ {
		blocks = append(blocks, genBlock(t, f, lim, true))
	}
	if f.NumLive() == 0 && rapid.IntRange(0, 9).Draw(t, "leaveempty") != 0 {
		b := Block{Add: rapid.IntRange(1, 9).Draw(t, "lastadd"), AM: "refill", DM: "none"}
		if rapid.Bool().Draw(t, "remlast") {
			b.Rem = []int{b.Add - 1}
		}
		applyToModel(f, b)
		blocks = append(blocks, b)
	}
	return blocks, f
}

func genC03(t *rapid.T) C03Case {
	if rapid.IntRange(0, 7).Draw(t, "deepstate") == 0 {
		c := C03Case{Map: Cfg{Kind: "map"}, Part: Cfg{Kind: "map"}}
		c.Deep = rapid.SampledFrom([]int{1, 2, 5, 8, 16, 31, 32, 33, 40, 47, 62, 63}).Draw(t, "deep")
		df, dv := deepView(c.Deep)
		hostileRows = []int{63, c.Deep + 1}
		c.Tuple = genHostileTuple(t, df, dv, false, false)
		return c
	}
	lim := tierLimits()
	if !thorough() {
		lim.maxLeaves, lim.maxBlocks = 48, 6
	} else {
		lim.maxLeaves, lim.maxBlocks = 300, 12
	}
	if bigCase(t) { // hostile claims derived from honest proofs with hundreds of targets
		lim.maxLeaves, lim.maxBlocks, lim.maxAdd = 700, 8, 300
	}
	blocks, f := genStateBlocks(t, lim)
	c := C03Case{Blocks: blocks, Map: genMapCfg(t, "map"), Part: genMapCfg(t, "part")}
	c.Part.Full = false
	if rapid.IntRange(0, 3).Draw(t, "embed") == 0 {
		lowBits := uint(bits.Len64(f.N()))
		c.High = uint64(1) << uint(rapid.IntRange(int(lowBits), 62).Draw(t, "highbit"))
		if lowBits <= 28 && rapid.IntRange(0, 3).Draw(t, "manytrees") == 0 {
			s := int(lowBits) + rapid.IntRange(0, 3).Draw(t, "runstart")
			c.High = ((uint64(1) << uint(rapid.IntRange(30, 62-s).Draw(t, "runlen"))) - 1) << uint(s) // 30+ opaque trees
		}
	}
	hostileRows = []int{63, c.Map.Rows, c.Part.Rows, int(model.Rows(f.N())) + 1}
	v := f.View()
	inRange := rapid.IntRange(0, 3).Draw(t, "inrange") != 0
	c.Tuple = genHostileTuple(t, f, v, inRange, false)
	c.Detour = rapid.IntRange(0, 2).Draw(t, "detour") == 0
	return c
}

// claimTrue reports whether "hash h sits at position pos" is a true statement about the state.
func claimTrue(v *model.View, pos uint64, h Hash) bool {
	w, ok := v.At[pos]
	return ok && w == h
}

// falseClaims lists the claims of an accepted tuple that are not true. truth may consult several layouts.
func falseClaims(targets []uint64, hs []Hash, truth func(pos uint64, h Hash) bool) []string {
	var bad []string
	for i, t := range targets {
		if i >= len(hs) {
			break
		}
		if hs[i] == (Hash{}) {
			continue
		}
		if !truth(t, hs[i]) {
			bad = append(bad, fmt.Sprintf("hash %s is not at position %d", shortH(hs[i]), t))
		}
	}
	return bad
}

// runC03Deep: soundness on the deep single-tree state (a light client's view of 2^Deep leaves):
// Verify against the one-root stump and a map forest started from that root.
func runC03Deep(c C03Case, res *Result) *Result {
	if c.Deep < 1 || c.Deep > 63 {
		return res.failf("case error: deep %d", c.Deep)
	}
	f, v := deepView(c.Deep)
	hs, proof, err := tupleToArgs(c.Tuple, f, v)
	if err != nil {
		return res.failf("case error: %v", err)
	}
	if len(hs) != len(proof.Targets) {
		return res.failf("case error: C03 tuples have as many hashes as targets")
	}
	for _, h := range hs {
		if h == (Hash{}) {
			res.class("zero-claimed-hash(outside hypothesis)")
			return res
		}
	}
	res.class(fmt.Sprintf("state:deep-%d", c.Deep))
	// truth: the external layout (Deep rows) or, for the map forest, its own 63-row layout
	at63 := map[uint64]Hash{}
	for p, h := range v.At {
		if q, ok := model.Translate(p, v.R, 63); ok {
			at63[q] = h
		}
	}
	ext := func(pos uint64, h Hash) bool { return claimTrue(v, pos, h) }
	both := func(pos uint64, h Hash) bool {
		w, ok := at63[pos]
		return claimTrue(v, pos, h) || (ok && w == h)
	}
	stump := u.Stump{Roots: cloneHashes(v.Roots), NumLeaves: v.N}
	budget := 10000 + 1000*(len(hs)+len(proof.Proof)+len(proof.Targets))
	try := func(who string, fn func() error, truth func(uint64, Hash) bool) *Result {
		var verr error
		if e := guarded(budget, func() { verr = fn() }); e != nil {
			res.class("panic-or-loop(C04)")
			return nil
		}
		if verr != nil {
			return nil
		}
		res.count("accepted", 1)
		if bad := falseClaims(proof.Targets, hs, truth); len(bad) > 0 {
			return res.failf("%s accepted a false claim on one tree of 2^%d leaves (leaf 0 and its path known): %v (targets %v hashes %s, %d proof hashes)", who, c.Deep, bad, proof.Targets, shortHs(hs), len(proof.Proof))
		}
		return nil
	}
	if r := try("Verify", func() error { _, e := u.Verify(copyStump(stump), cloneHashes(hs), cloneProof(proof)); return e }, ext); r != nil {
		return r
	}
	m := u.NewMapPollardFromRoots(cloneHashes(v.Roots), v.N, false)
	if r := try("MapPollard(from roots).Verify", func() error { return m.Verify(cloneHashes(hs), cloneProof(proof), false) }, both); r != nil {
		return r
	}
	if r := try("MapPollard(from roots).VerifyPartialProof", func() error {
		return m.VerifyPartialProof(cloneU64(proof.Targets), cloneHashes(hs), cloneHashes(proof.Proof), false)
	}, both); r != nil {
		return r
	}
	if r := try("MapPollard(from roots).Verify(remember)", func() error { return m.Verify(cloneHashes(hs), cloneProof(proof), true) }, both); r != nil {
		return r
	}
	m2 := u.NewMapPollardFromRoots(cloneHashes(v.Roots), v.N, false)
	if r := try("MapPollard(from roots).VerifyPartialProof(remember)", func() error {
		return m2.VerifyPartialProof(cloneU64(proof.Targets), cloneHashes(hs), cloneHashes(proof.Proof), true)
	}, both); r != nil {
		return r
	}
	res.NonTrivial = !isHonest(c.Tuple, f, v)
	return res
}

func runC03(c C03Case) *Result {
	res := &Result{}
	if c.Deep != 0 {
		return runC03Deep(c, res)
	}
	cfgs := []Cfg{{Kind: "pollard"}, c.Map, c.Part}
	ls := newLockstep(cfgs)
	for i, b := range c.Blocks {
		if err := ls.step(i, b); err != nil {
			res.class("setup-failed")
			return res
		}
	}
	f := ls.f
	v := f.View()
	if c.Detour {
		db := Block{Add: 3, Salt: 77}
		if live := f.Live(); len(live) > 0 {
			db.Del = live[:1]
		}
		delH := f.HashesOf(db.Del)
		dp := v.Proof(delH)
		adds, addH := mkLeavesSalt(db.Salt, len(f.Hashes), db.Add, func(int) bool { return true })
		g := f.Clone()
		applyToModel(g, db)
		gv := g.View()
		hp := gv.Proof(addH[:1])
		for _, in := range ls.insts {
			if err := in.Apply(adds, delH, dp); err != nil {
				res.class("setup-failed")
				return res
			}
			in.ar.next()
			if err := in.Acc().Verify(in.ar.hashes(addH[:1]), in.ar.proof(hp), false); err != nil {
				res.class("setup-failed") // an honest proof refused: C02's business
				return res
			}
			in.ar.next()
			if err := in.Acc().Undo(uint64(db.Add), in.ar.proof(dp), in.ar.hashes(delH), in.ar.hashes(v.Roots)); err != nil {
				res.class("setup-failed") // C06's business
				return res
			}
			if err := in.checkRoots(v); err != nil {
				res.class("setup-failed")
				return res
			}
		}
		res.class("state:after-block-verify-undo")
	}
	hs, proof, err := tupleToArgs(c.Tuple, f, v)
	if err != nil {
		return res.failf("case error: %v", err)
	}
	if len(hs) != len(proof.Targets) {
		return res.failf("case error: C03 tuples have as many hashes as targets")
	}
	for _, h := range hs {
		if h == (Hash{}) {
			// the property speaks about lists of non-zero hashes only
			res.class("zero-claimed-hash(outside hypothesis)")
			return res
		}
	}
	honest := isHonest(c.Tuple, f, v)
	inRange := true
	for _, t := range proof.Targets {
		if t > v.MaxPos() {
			inRange = false
		}
	}
	res.NonTrivial = !honest && inRange
	if honest {
		res.class("honest")
	}
	if !inRange {
		res.class("target-beyond-maxpos")
	}
	for _, m := range c.Tuple.Mut {
		res.class("mut:" + m)
	}
	extTruth := func(pos uint64, h Hash) bool { return claimTrue(v, pos, h) }
	report := func(who string, bad []string) *Result {
		return res.failf("%s accepted a false claim on a forest with %d leaves: %v (targets %v hashes %s proof %s)", who, v.N, bad, proof.Targets, shortHs(hs), shortHs(proof.Proof))
	}
	accepted := 0
	call := func(who string, fn func() error, truth func(uint64, Hash) bool) *Result {
		var verr error
		if e := guarded(10000+1000*(len(hs)+len(proof.Proof)+len(proof.Targets)), func() { verr = fn() }); e != nil {
			// totality is C04's property; do not report it under C03
			res.class("panic-or-loop(C04)")
			return nil
		}
		if verr != nil {
			return nil
		}
		accepted++
		if bad := falseClaims(proof.Targets, hs, truth); len(bad) > 0 {
			return report(who, bad)
		}
		return nil
	}
	stump := u.Stump{Roots: cloneHashes(v.Roots), NumLeaves: v.N}
	if r := call("Verify", func() error { _, e := u.Verify(copyStump(stump), cloneHashes(hs), cloneProof(proof)); return e }, extTruth); r != nil {
		return r
	}
	if r := call("Pollard.Verify", func() error { return ls.insts[0].P.Verify(cloneHashes(hs), cloneProof(proof), false) }, extTruth); r != nil {
		return r
	}
	// map forests also understand positions given in their own TotalRows layout
	mapTruth := func(in *Inst) func(uint64, Hash) bool {
		vr := f.ViewR(in.M.TotalRows)
		return func(pos uint64, h Hash) bool { return claimTrue(v, pos, h) || claimTrue(vr, pos, h) }
	}
	mp, part := ls.insts[1], ls.insts[2]
	if r := call(mp.Cfg.String()+" Verify", func() error { return mp.M.Verify(cloneHashes(hs), cloneProof(proof), false) }, mapTruth(mp)); r != nil {
		return r
	}
	if r := call(part.Cfg.String()+" VerifyPartialProof(all proof hashes)", func() error {
		return part.M.VerifyPartialProof(cloneU64(proof.Targets), cloneHashes(hs), cloneHashes(proof.Proof), false)
	}, mapTruth(part)); r != nil {
		return r
	}
	// the honest way to call VerifyPartialProof: only the hashes the forest says it is missing
	allNodes := true
	for _, t := range proof.Targets {
		if v.NodeAt[t] == nil {
			allNodes = false
		}
	}
	if allNodes && len(proof.Targets) > 0 {
		need, _ := v.ProofPositions(proof.Targets)
		if len(need) == len(proof.Proof) {
			missing := map[uint64]bool{}
			for _, p := range part.M.GetMissingPositions(cloneU64(proof.Targets)) {
				missing[p] = true
			}
			var sub []Hash
			for i, p := range need {
				if missing[p] {
					sub = append(sub, proof.Proof[i])
				}
			}
			res.count("partial_calls_with_missing_only", 1)
			if r := call(part.Cfg.String()+" VerifyPartialProof(missing hashes only)", func() error {
				return part.M.VerifyPartialProof(cloneU64(proof.Targets), cloneHashes(hs), sub, false)
			}, mapTruth(part)); r != nil {
				return r
			}
		}
	}
	// stand-alone Verify against the same forest embedded at the low end of a huge accumulator
	if c.High != 0 {
		if c.High&((uint64(1)<<uint(bits.Len64(v.N)))-1) != 0 || c.High+v.N > 1<<63 {
			return res.failf("case error: High must only have bits above those of N")
		}
		var roots []Hash
		for h := 63; h >= 0; h-- {
			if c.High&(uint64(1)<<uint(h)) != 0 {
				roots = append(roots, model.FreshHash(1000+h))
			}
		}
		big := u.Stump{Roots: append(roots, v.Roots...), NumLeaves: c.High + v.N}
		embAt := map[uint64]Hash{}
		for p, h := range v.At {
			embAt[embedPos(p, v, c.High)] = h
		}
		et := make([]uint64, len(proof.Targets))
		for i, p := range proof.Targets {
			et[i] = embedPos(p, v, c.High)
		}
		ep := u.Proof{Targets: et, Proof: proof.Proof}
		res.class("embedded")
		var verr error
		if e := guarded(20000+1000*(len(hs)+len(proof.Proof)), func() { _, verr = u.Verify(big, cloneHashes(hs), cloneProof(ep)) }); e == nil && verr == nil {
			accepted++
			if bad := falseClaims(et, hs, func(pos uint64, h Hash) bool { w, ok := embAt[pos]; return ok && w == h }); len(bad) > 0 {
				return res.failf("Verify accepted a false claim on a stump with %d leaves (forest of %d embedded under %d): %v (targets %v)", big.NumLeaves, v.N, c.High, bad, et)
			}
		}
	}
	// last, because they change the forests: the same claim through the REMEMBERING entry points
	if r := call("Pollard.Verify(remember)", func() error { return ls.insts[0].P.Verify(cloneHashes(hs), cloneProof(proof), true) }, extTruth); r != nil {
		return r
	}
	if r := call(mp.Cfg.String()+" Verify(remember)", func() error { return mp.M.Verify(cloneHashes(hs), cloneProof(proof), true) }, mapTruth(mp)); r != nil {
		return r
	}
	if (len(c.Tuple.Targets)+len(c.Tuple.Proof))%2 == 0 {
		if r := call(part.Cfg.String()+" Verify(remember)", func() error { return part.M.Verify(cloneHashes(hs), cloneProof(proof), true) }, mapTruth(part)); r != nil {
			return r
		}
	} else {
		if r := call(part.Cfg.String()+" VerifyPartialProof(all proof hashes, remember)", func() error {
			return part.M.VerifyPartialProof(cloneU64(proof.Targets), cloneHashes(hs), cloneHashes(proof.Proof), true)
		}, mapTruth(part)); r != nil {
			return r
		}
	}
	res.count("verifier_calls_accepting", accepted)
	if accepted > 0 && !honest {
		res.class("accepted_nonhonest")
	}
	return res
}

// ---- exhaustive small-alphabet enumeration ---------------------------------------------------

type smallState struct {
	n    int
	dead []int
}

func smallStates() []smallState {
	var out []smallState
	maxAll := 4
	for n := 1; n <= maxAll; n++ {
		for mask := 0; mask < 1<<n; mask++ {
			var dead []int
			for i := 0; i < n; i++ {
				if mask&(1<<i) != 0 {
					dead = append(dead, i)
				}
			}
			out = append(out, smallState{n, dead})
		}
	}
	for _, n := range []int{5, 6} {
		out = append(out, smallState{n, nil})
		for i := 0; i < n; i++ {
			out = append(out, smallState{n, []int{i}})
		}
		out = append(out, smallState{n, []int{0, 1}}, smallState{n, []int{2, 3}}, smallState{n, []int{0, 1, 2}}, smallState{n, []int{0, 1, 2, 3}}, smallState{n, []int{1, 2, n - 1}})
	}
	if thorough() {
		for _, n := range []int{7, 8} {
			out = append(out, smallState{n, nil}, smallState{n, []int{1}}, smallState{n, []int{4, 5}}, smallState{n, []int{0, 1, 2}}, smallState{n, []int{0, 1, 2, 3, n - 1}})
		}
	}
	return out
}

// exhaustiveC03 enumerates, for every small state, ALL tuples (targets in [0,maxPos]^k, hashes and
// proof hashes from the alphabet {every true node hash, one fresh value}) within the bounds and runs
// Verify and Pollard.Verify on each.
func exhaustiveC03(t *testing.T) {
	if *flagNoExh {
		return
	}
	shard, nshards := shardOf()
	maxK, cap := 2, 1500000
	if thorough() {
		cap = 12000000
	}
	var evals, nt, acceptedNonHonest, states int
	for si, st := range smallStates() {
		if si%nshards != shard {
			continue
		}
		states++
		f := &model.Forest{}
		pol := u.NewAccumulator()
		leaves, _ := mkLeaves(0, st.n, nil)
		if err := pol.Modify(leaves, nil, u.Proof{}); err != nil {
			t.Fatalf("setup: %v", err)
		}
		for i := 0; i < st.n; i++ {
			f.Add(model.LeafHash(i))
		}
		if len(st.dead) > 0 {
			v0 := f.View()
			dh := f.HashesOf(st.dead)
			if err := pol.Modify(nil, dh, v0.Proof(dh)); err != nil {
				t.Fatalf("setup: %v", err)
			}
			for _, d := range st.dead {
				f.Kill(d)
			}
		}
		v := f.View()
		stump := u.Stump{Roots: cloneHashes(v.Roots), NumLeaves: v.N}
		if !eqHashes(pol.GetRoots(), v.Roots) {
			continue // C01's business
		}
		var alpha []Hash
		seen := map[Hash]bool{}
		for _, p := range sortedPositions(v) {
			if h := v.At[p]; !seen[h] {
				seen[h] = true
				alpha = append(alpha, h)
			}
		}
		alpha = append(alpha, model.FreshHash(0))
		P := int(v.MaxPos()) + 1
		A := len(alpha)
		pow := func(b, e int) int {
			r := 1
			for i := 0; i < e; i++ {
				r *= b
			}
			return r
		}
		k := maxK
		if thorough() && st.n <= 4 {
			k = 3
		}
		maxL := 3
		count := func(k, L int) int {
			tot := 0
			for kk := 1; kk <= k; kk++ {
				proofs := 0
				for l := 0; l <= L; l++ {
					proofs += pow(A, l)
				}
				tot += pow(P, kk) * pow(A, kk) * proofs
			}
			return tot
		}
		for maxL > 0 && count(k, maxL) > cap {
			maxL--
		}
		for k > 1 && count(k, maxL) > cap {
			k--
		}
		targets := make([]uint64, 0, 3)
		hashes := make([]Hash, 0, 3)
		proofH := make([]Hash, 0, 3)
		// the same state at the low end of a huge accumulator (behind 2^33, or 2^62+2^40, opaque leaves):
		// every claim of the enumeration is also put to the stand-alone verifier there, positions shifted
		// by the independent geometry, so that the 33+-bit arithmetic sees every small claim shape
		high := uint64(1) << 33
		if si%2 == 1 {
			high = uint64(1)<<62 | uint64(1)<<40
		}
		var bigRoots []Hash
		for h := 63; h >= 0; h-- {
			if high&(uint64(1)<<uint(h)) != 0 {
				bigRoots = append(bigRoots, model.FreshHash(1000+h))
			}
		}
		big := u.Stump{Roots: append(bigRoots, v.Roots...), NumLeaves: high + v.N}
		embAt := map[uint64]Hash{}
		for p, h := range v.At {
			embAt[embedPos(p, v, high)] = h
		}
		embOf := make([]uint64, v.MaxPos()+1)
		for p := range embOf {
			embOf[p] = embedPos(uint64(p), v, high)
		}
		et := make([]uint64, 0, 3)
		check := func() {
			evals++
			pr := u.Proof{Targets: targets, Proof: proofH}
			_, err1 := u.Verify(stump, hashes, pr)
			err2 := pol.Verify(hashes, pr, false)
			et = et[:0]
			for _, p := range targets {
				et = append(et, embOf[p])
			}
			if _, err3 := u.Verify(big, hashes, u.Proof{Targets: et, Proof: proofH}); err3 == nil {
				if bad := falseClaims(et, hashes, func(pos uint64, h Hash) bool { w, ok := embAt[pos]; return ok && w == h }); len(bad) > 0 {
					c := C03Case{Blocks: []Block{{Add: st.n}, {Del: st.dead}}, Map: Cfg{Kind: "map", Full: true, Rows: 63}, Part: Cfg{Kind: "map", Rows: 63}, High: high}
					c.Tuple = literalTuple(targets, hashes, proofH)
					rec.fail(fmt.Sprintf("Verify accepted a false claim on a stump with %d leaves (forest of %d embedded under %d): %v", big.NumLeaves, v.N, high, bad), caseJSON(c), false)
					t.Fatalf("exhaustive: state n=%d dead=%v embedded under %d: Verify accepted a false claim %v (targets %v hashes %s proof %s)", st.n, st.dead, high, bad, et, shortHs(hashes), shortHs(proofH))
				}
			}
			honest := false
			if err1 == nil || err2 == nil {
				var bad []string
				bad = falseClaims(targets, hashes, func(pos uint64, h Hash) bool { return claimTrue(v, pos, h) })
				if len(bad) > 0 {
					who := "Verify"
					if err1 != nil {
						who = "Pollard.Verify"
					}
					c := C03Case{Blocks: []Block{{Add: st.n}, {Del: st.dead}}, Map: Cfg{Kind: "map", Full: true, Rows: 63}, Part: Cfg{Kind: "map", Rows: 63}}
					c.Tuple = literalTuple(targets, hashes, proofH)
					rec.fail(fmt.Sprintf("%s accepted a false claim: %v", who, bad), caseJSON(c), false)
					t.Fatalf("exhaustive: state n=%d dead=%v: %s accepted a false claim %v (targets %v hashes %s proof %s)", st.n, st.dead, who, bad, targets, shortHs(hashes), shortHs(proofH))
				}
				// honest = distinct live leaves with their true hashes and the canonical proof
				honest = literalHonest(v, targets, hashes, proofH)
				if !honest {
					acceptedNonHonest++
				}
			}
			if !honest {
				nt++
			}
		}
		var recP func(l, L int)
		recP = func(l, L int) {
			if l == L {
				check()
				return
			}
			for _, h := range alpha {
				proofH = append(proofH, h)
				recP(l+1, L)
				proofH = proofH[:len(proofH)-1]
			}
		}
		var recH func(i, kk int)
		recH = func(i, kk int) {
			if i == kk {
				for L := 0; L <= maxL; L++ {
					recP(0, L)
				}
				return
			}
			for _, h := range alpha {
				hashes = append(hashes, h)
				recH(i+1, kk)
				hashes = hashes[:len(hashes)-1]
			}
		}
		var recT func(i, kk int)
		recT = func(i, kk int) {
			if i == kk {
				recH(0, kk)
				return
			}
			for p := 0; p < P; p++ {
				targets = append(targets, uint64(p))
				recT(i+1, kk)
				targets = targets[:len(targets)-1]
			}
		}
		for kk := 1; kk <= k; kk++ {
			recT(0, kk)
		}
	}
	rec.bulk(evals, nt)
	rec.addExtraCount("exhaustive_states", states)
	rec.addExtraCount("exhaustive_accepted_nonhonest", acceptedNonHonest)
	rec.extra("exhaustive_subspace", "for every (N<=4, any dead set) and selected N in 5..6 (thorough ..8): every tuple with k<=2 (thorough 3 for N<=4) targets in [0,maxPos], "+
		"hashes and up to 3 proof hashes (fewer when the count passes the per-state cap) from {all true node hashes, one fresh value}; Verify and Pollard.Verify")
}

func literalTuple(targets []uint64, hashes, proof []Hash) Tuple {
	tp := Tuple{Targets: cloneU64(targets)}
	for _, h := range hashes {
		tp.Hashes = append(tp.Hashes, fmt.Sprintf("X%x", h[:]))
	}
	for _, h := range proof {
		tp.Proof = append(tp.Proof, fmt.Sprintf("X%x", h[:]))
	}
	return tp
}

func literalHonest(v *model.View, targets []uint64, hashes, proof []Hash) bool {
	seen := map[uint64]bool{}
	for i, t := range targets {
		n := v.NodeAt[t]
		if n == nil || !n.IsLeaf() || seen[t] || n.Hash != hashes[i] {
			return false
		}
		seen[t] = true
	}
	need, _ := v.ProofPositions(targets)
	if len(need) != len(proof) {
		return false
	}
	for i, p := range need {
		if v.At[p] != proof[i] {
			return false
		}
	}
	return true
}

func TestC03(t *testing.T) {
	runSpec(t, Spec[C03Case]{ID: "C03", Gen: genC03, Run: runC03, Pre: exhaustiveC03})
}

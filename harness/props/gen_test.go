package props

// Shared rapid generators. All randomness comes from rapid draws so that shrinking and
// replay work; generators track the reference model so that preconditions (which leaves
// are live) hold by construction, never by rejection.

import (
	"fmt"
	"sort"

	"pgregory.net/rapid"
	"verifharness/model"
)

// Block is one block of a history, as plain data: leaves are named by insertion slot.
type Block struct {
	Del []int `json:"del,omitempty"` // slots to delete, in request order
	Add int   `json:"add,omitempty"` // number of leaves appended
	Rem []int `json:"rem,omitempty"` // ascending indexes (within the adds) to remember
	// Reuse: pairs {add index, slot}: that added leaf carries the hash of the leaf of that slot, which is
	// dead once this block's deletions are done (spent in this very block or earlier) and whose hash
	// is not the hash of any live leaf: a spent leaf re-created with the same hash.
	Reuse [][2]int `json:"reuse,omitempty"`
	// Bad: right before this block every map forest is handed a block it must REFUSE: Modify(no adds,
	// hashes of these live slots followed by one hash that is not a leaf of the forest). The refusal must
	// leave everything as it was (the leaves are spent for real by later blocks).
	Bad   []int `json:"bad,omitempty"`
	Prune []int `json:"prune,omitempty"` // slots a partial map forest is asked to Prune right before this block (remembered, live)
	// Learn: live slots every forest is asked to remember right before this block (after the prunes), the way
	// LearnHow says: "verify" - Verify(remember=true); "ingest" - MapPollard.Ingest (partial forests; the
	// others Verify); "vpp" - GetMissingPositions + VerifyPartialProof(remember=true) (partial forests).
	Learn    []int  `json:"learn,omitempty"`
	LearnHow string `json:"learnhow,omitempty"`
	// Stale: right before this block (after prunes and learns) every forest applies a STALE TIP - a block
	// adding this many leaves of another branch, all to be remembered - and undoes it again: a one-block
	// reorganisation. The state is the same as before; the block that follows meets a forest that has
	// just undone something.
	Stale    int    `json:"stale,omitempty"`
	Salt     int    `json:"salt,omitempty"` // branch id: added leaves hash as LeafHash(Salt*1e6+slot), so that leaves re-added on another branch after an undo differ
	DM       string `json:"dm,omitempty"`   // deletion mode that produced Del (coverage label)
	AM       string `json:"am,omitempty"`   // addition mode that produced Add (coverage label)
}

type limits struct {
	maxLeaves int
	maxBlocks int
	maxAdd    int
}

func tierLimits() limits {
	if thorough() {
		return limits{maxLeaves: 1100, maxBlocks: 40, maxAdd: 200}
	}
	return limits{maxLeaves: 96, maxBlocks: 14, maxAdd: 12}
}

// genLimits is tierLimits with an occasional much larger case mixed in (1 in 40 quick cases, 1 in 8
// thorough ones): forests of several hundred leaves, blocks adding more than 255 leaves, histories
// of 25+ blocks - the scale at which counters wrap and leaves climb many rows.
func genLimits(t *rapid.T) limits {
	if thorough() {
		if rapid.IntRange(0, 7).Draw(t, "huge") == 0 {
			return limits{maxLeaves: 2600, maxBlocks: 48, maxAdd: 700}
		}
		return tierLimits()
	}
	if rapid.IntRange(0, 39).Draw(t, "big") == 0 {
		return limits{maxLeaves: 640, maxBlocks: 26, maxAdd: 300}
	}
	return tierLimits()
}

// genLimitsGiant is genLimits for the checks whose per-case cost stays linear (C01, C02, C05, C07,
// C11, C15): in the thorough tier 1 case in 48 builds a forest of up to 12000 leaves with blocks of
// thousands of additions and deletions (trees of 12+ rows emptied, subtrees of 12+ rows climbing).
func genLimitsGiant(t *rapid.T) limits {
	if thorough() && rapid.IntRange(0, 47).Draw(t, "giant") == 0 {
		return limits{maxLeaves: 12000, maxBlocks: 9, maxAdd: 9000}
	}
	return genLimits(t)
}

// bigCase draws whether this case is one of the occasional large ones (quick 1 in 40, thorough 1 in 8).
func bigCase(t *rapid.T) bool {
	if thorough() {
		return rapid.IntRange(0, 7).Draw(t, "big") == 0
	}
	return rapid.IntRange(0, 39).Draw(t, "big") == 0
}

var rowsChoices = []int{0, 1, 2, 3, 4, 5, 6, 8, 16, 31, 32, 33, 62, 63}

func genRows(t *rapid.T, label string) int {
	if rapid.IntRange(0, 3).Draw(t, label+"-any") == 0 {
		return rapid.IntRange(0, 63).Draw(t, label)
	}
	return rapid.SampledFrom(rowsChoices).Draw(t, label)
}

func genMapCfg(t *rapid.T, label string) Cfg {
	return Cfg{Kind: "map", Full: rapid.Bool().Draw(t, label+"-full"), Rows: genRows(t, label+"-rows"), Direct: rapid.Bool().Draw(t, label+"-direct"),
		Ext: rapid.IntRange(0, 3).Draw(t, label+"-ext") == 0}
}

func subsetP(t *rapid.T, xs []int, num, den int, label string) []int {
	var out []int
	for _, x := range xs {
		if rapid.IntRange(0, den-1).Draw(t, label) < num {
			out = append(out, x)
		}
	}
	return out
}

func permute(t *rapid.T, xs []int, label string) []int {
	if len(xs) < 2 {
		return xs
	}
	switch rapid.IntRange(0, 3).Draw(t, label+"-order") {
	case 0: // ascending slot order
		return xs
	case 1: // descending
		out := append([]int(nil), xs...)
		sort.Sort(sort.Reverse(sort.IntSlice(out)))
		return out
	default:
		return rapid.Permutation(xs).Draw(t, label)
	}
}

// genDel draws the deletion set of a block from the live leaves of f.
func genDel(t *rapid.T, f *model.Forest) ([]int, string) {
	live := f.Live()
	if len(live) == 0 {
		return nil, "none"
	}
	v := f.View()
	mode := rapid.SampledFrom([]string{"none", "all", "trees", "siblings", "loneroot", "climbed", "allbutone",
		"one", "p1/8", "p1/2", "p7/8", "p1/2"}).Draw(t, "delmode")
	var del []int
	switch mode {
	case "none":
	case "all":
		del = live
	case "trees", "allbutone":
		var withLive []int
		for i, tr := range v.Trees {
			if tr.Root != nil {
				withLive = append(withLive, i)
			}
		}
		pick := subsetP(t, withLive, 1, 2, "tree")
		if len(pick) == 0 {
			pick = []int{rapid.SampledFrom(withLive).Draw(t, "tree1")}
		}
		for _, ti := range pick {
			tr := v.Trees[ti]
			var in []int
			for s := tr.First; s < tr.First+(uint64(1)<<tr.Height); s++ {
				if !f.Dead[s] {
					in = append(in, int(s))
				}
			}
			if mode == "allbutone" && len(in) > 1 {
				keep := rapid.IntRange(0, len(in)-1).Draw(t, "keep")
				in = append(in[:keep:keep], in[keep+1:]...)
			}
			del = append(del, in...)
		}
	case "siblings":
		for _, s := range live {
			p := v.SlotPos[s]
			if p&1 == 0 {
				if n := v.NodeAt[p|1]; n != nil && n.IsLeaf() && rapid.IntRange(0, 2).Draw(t, "pair") > 0 {
					del = append(del, s, n.Slot)
				}
			}
		}
	case "loneroot":
		for _, tr := range v.Trees {
			if tr.Root != nil && tr.Root.IsLeaf() {
				del = append(del, tr.Root.Slot)
			}
		}
	case "climbed":
		for _, s := range live {
			if n := v.NodeAt[v.SlotPos[s]]; n.Row >= 1 && rapid.IntRange(0, 3).Draw(t, "cl") > 0 {
				del = append(del, s)
			}
		}
	case "one":
		del = []int{rapid.SampledFrom(live).Draw(t, "one")}
	case "p1/8":
		del = subsetP(t, live, 1, 8, "d")
	case "p1/2":
		del = subsetP(t, live, 1, 2, "d")
	case "p7/8":
		del = subsetP(t, live, 7, 8, "d")
	}
	if len(del) == 0 && mode != "none" {
		mode = "fallback-" + mode
		del = subsetP(t, live, 1, 3, "df")
	}
	return permute(t, del, "delperm"), mode
}

func nextPow2(n uint64) uint64 {
	p := uint64(1)
	for p <= n {
		p <<= 1
	}
	return p
}

// genAdd draws the number of additions of a block.
func genAdd(t *rapid.T, n uint64, lim limits) (int, string) {
	room := lim.maxLeaves - int(n)
	if room <= 0 {
		return 0, "full"
	}
	mode := rapid.SampledFrom([]string{"0", "1", "2", "3", "pow2-1", "pow2", "pow2+", "rand", "rand"}).Draw(t, "addmode")
	np := int(nextPow2(n) - n) // additions that make N a power of two (>=1)
	var k int
	switch mode {
	case "0":
		k = 0
	case "1", "2", "3":
		k = int(mode[0] - '0')
	case "pow2-1":
		k = np - 1
	case "pow2":
		k = np
	case "pow2+":
		k = np + rapid.IntRange(1, 3).Draw(t, "beyond")
	case "rand":
		k = rapid.IntRange(0, lim.maxAdd).Draw(t, "nadd")
	}
	if k > room {
		k = room
		mode += "-clamped"
	}
	return k, mode
}

// genBlock draws one block against the current model state and applies it to the model.
func genBlock(t *rapid.T, f *model.Forest, lim limits, remember bool) Block {
	del, dm := genDel(t, f)
	add, am := genAdd(t, f.N(), lim)
	b := Block{Del: del, Add: add, DM: dm, AM: am}
	if remember && add > 0 {
		switch rapid.IntRange(0, 4).Draw(t, "remmode") {
		case 0: // none
		case 1: // all
			for i := 0; i < add; i++ {
				b.Rem = append(b.Rem, i)
			}
		case 2: // last only
			b.Rem = []int{add - 1}
		default:
			for i := 0; i < add; i++ {
				if rapid.Bool().Draw(t, "rem") {
					b.Rem = append(b.Rem, i)
				}
			}
		}
	}
	applyToModel(f, b)
	return b
}

// applyToModel advances the reference model by one block.
func applyToModel(f *model.Forest, b Block) {
	hs := blockAddHashes(f, b)
	for _, s := range b.Del {
		f.Kill(s)
	}
	for _, h := range hs {
		f.Add(h)
	}
}

// blockAddHashes returns the hashes of the leaves block b adds to the (pre-block) forest f.
func blockAddHashes(f *model.Forest, b Block) []Hash {
	first := len(f.Hashes)
	hs := make([]Hash, b.Add)
	for k := range hs {
		hs[k] = leafHashOf(b.Salt, first+k)
	}
	for _, r := range b.Reuse {
		if r[0] >= 0 && r[0] < b.Add && r[1] >= 0 && r[1] < first {
			hs[r[0]] = f.Hashes[r[1]]
		}
	}
	return hs
}

// checkReuse validates the Reuse pairs of a block against the pre-block forest (replay files only).
func checkReuse(f *model.Forest, b Block) error {
	usedAdd, usedHash := map[int]bool{}, map[Hash]bool{}
	for _, r := range b.Reuse {
		if r[0] < 0 || r[0] >= b.Add || r[1] < 0 || r[1] >= len(f.Hashes) || usedAdd[r[0]] {
			return fmt.Errorf("case error: bad reuse pair %v", r)
		}
		h := f.Hashes[r[1]]
		if usedHash[h] {
			return fmt.Errorf("case error: hash reused twice")
		}
		for s, x := range f.Hashes {
			if x == h && !f.Dead[s] && !inSet(b.Del, s) {
				return fmt.Errorf("case error: reuse of slot %d whose hash is live in slot %d", r[1], s)
			}
		}
		usedAdd[r[0]], usedHash[h] = true, true
	}
	return nil
}

// genReuse decorates block b (not yet applied to f) with re-created spent leaves.
func genReuse(t *rapid.T, f *model.Forest, b *Block) {
	if b.Add == 0 || rapid.IntRange(0, 3).Draw(t, "reuse") != 0 {
		return
	}
	liveHash := map[Hash]bool{}
	for s, h := range f.Hashes {
		if !f.Dead[s] && !inSet(b.Del, s) {
			liveHash[h] = true
		}
	}
	var cands []int
	seen := map[Hash]bool{}
	for _, s := range b.Del { // spent in this very block first
		if h := f.Hashes[s]; !liveHash[h] && !seen[h] {
			seen[h] = true
			cands = append(cands, s)
		}
	}
	for s, h := range f.Hashes {
		if f.Dead[s] && !liveHash[h] && !seen[h] {
			seen[h] = true
			cands = append(cands, s)
		}
	}
	if len(cands) == 0 {
		return
	}
	n := rapid.IntRange(1, min(2, min(b.Add, len(cands)))).Draw(t, "nreuse")
	idx := rapid.Permutation(func() []int {
		x := make([]int, b.Add)
		for i := range x {
			x[i] = i
		}
		return x
	}()).Draw(t, "reuse-adds")
	for k := 0; k < n; k++ {
		pick := k
		if k >= len(b.Del) || rapid.Bool().Draw(t, "reuse-any") {
			pick = rapid.IntRange(0, len(cands)-1).Draw(t, "reuse-slot")
		}
		slot := cands[pick]
		dup := false
		for _, r := range b.Reuse {
			if f.Hashes[r[1]] == f.Hashes[slot] {
				dup = true
			}
		}
		if !dup {
			b.Reuse = append(b.Reuse, [2]int{idx[k], slot})
		}
	}
}

// leafHashOf is the hash of the leaf added into the given slot on branch salt.
func leafHashOf(salt, slot int) model.Hash { return model.LeafHash(salt*1000000 + slot) }

// genHistory draws a whole block history from the empty accumulator.
func genHistory(t *rapid.T, lim limits, remember bool) []Block {
	f := &model.Forest{}
	n := rapid.IntRange(1, lim.maxBlocks).Draw(t, "nblocks")
	out := make([]Block, 0, n)
	for i := 0; i < n; i++ {
		out = append(out, genBlock(t, f, lim, remember))
	}
	return out
}

// blockShape classifies what a block does to the forest (used for non-trivial rules).
type blockShape struct {
	deletes, adds    bool
	emptiesTree      bool // some tree has survivors before and none after the deletions
	overwritesEmpty  bool // an empty root is popped by the additions
	crossesPow2      bool // TreeRows changes
	climbed          bool // after the block some leaf sits at row >= 2
	delRoot, delSibs bool
	delAll           bool
}

func shapeOf(before *model.Forest, b Block) blockShape {
	var s blockShape
	s.deletes, s.adds = len(b.Del) > 0, b.Add > 0
	vb := before.View()
	mid := before.Clone()
	for _, d := range b.Del {
		mid.Kill(d)
	}
	vm := mid.View()
	for i := range vb.Trees {
		if vb.Trees[i].Root != nil && vm.Trees[i].Root == nil {
			s.emptiesTree = true
		}
	}
	s.delAll = s.deletes && mid.NumLive() == 0
	pos := map[uint64]bool{}
	for _, d := range b.Del {
		p := vb.SlotPos[d]
		pos[p] = true
		if vb.IsRoot[p] {
			s.delRoot = true
		}
	}
	for p := range pos {
		if pos[p^1] {
			s.delSibs = true
		}
	}
	// additions pop the roots of the low 1-bits of N one at a time
	n := mid.N()
	roots := append([]model.Hash(nil), vm.Roots...)
	for i := 0; i < b.Add; i++ {
		for h := uint(0); (n>>h)&1 == 1; h++ {
			if roots[len(roots)-1] == model.Empty {
				s.overwritesEmpty = true
			}
			roots = roots[:len(roots)-1]
		}
		roots = append(roots, model.Hash{1})
		n++
	}
	s.crossesPow2 = model.Rows(n) != model.Rows(before.N())
	after := mid.Clone()
	for i := 0; i < b.Add; i++ {
		after.Add(model.LeafHash(len(after.Hashes)))
	}
	va := after.View()
	for _, nd := range va.NodeAt {
		if nd.IsLeaf() && nd.Row >= 2 {
			s.climbed = true
			break
		}
	}
	return s
}

// addPrunes decorates a history with Prune requests: before some blocks a partial forest is asked
// to forget a drawn subset of the leaves it remembers at that point (block Rem flags minus
// deletions minus earlier prunes). Roots, proofs of the remaining leaves and later blocks must
// not be affected.
func addPrunes(t *rapid.T, blocks []Block) {
	tracked := map[int]bool{}
	live := map[int]bool{}
	n := 0
	for i := range blocks {
		b := &blocks[i]
		if i > 0 && len(live) > 0 && rapid.IntRange(0, 4).Draw(t, "bad-here") == 0 {
			var l []int
			for s := range live {
				l = append(l, s)
			}
			sort.Ints(l)
			k := rapid.IntRange(1, min(3, len(l))).Draw(t, "nbad")
			b.Bad = rapid.Permutation(l).Draw(t, "badperm")[:k]
		}
		if i > 0 && len(tracked) > 0 && rapid.IntRange(0, 2).Draw(t, "prune-here") == 0 {
			var l []int
			for s := range tracked {
				l = append(l, s)
			}
			sort.Ints(l)
			pr := subsetP(t, l, 1, 2, "prune")
			if len(pr) == 0 {
				pr = l[:1]
			}
			b.Prune = permute(t, pr, "pruneperm")
			for _, s := range b.Prune {
				delete(tracked, s)
			}
		}
		if i > 0 && len(live) > 0 && rapid.IntRange(0, 2).Draw(t, "learn-here") == 0 {
			var l []int
			for s := range live {
				l = append(l, s)
			}
			sort.Ints(l)
			k := rapid.IntRange(1, min(3, len(l))).Draw(t, "nlearn")
			b.Learn = rapid.Permutation(l).Draw(t, "learnperm")[:k:k]
			// the newest leaf is alone in its tree whenever the forest is odd-sized: a tracked leaf ON a root
			if newest := l[len(l)-1]; !inSet(b.Learn, newest) && rapid.Bool().Draw(t, "learn-newest") {
				b.Learn = append(b.Learn, newest)
			}
			b.LearnHow = rapid.SampledFrom([]string{"verify", "ingest", "vpp"}).Draw(t, "learnhow")
			for _, s := range b.Learn {
				tracked[s] = true
			}
		}
		if i > 0 && rapid.IntRange(0, 4).Draw(t, "stale-tip-here") == 0 {
			b.Stale = rapid.IntRange(1, 5).Draw(t, "stale-adds")
		}
		for _, d := range b.Del {
			delete(tracked, d)
			delete(live, d)
		}
		for _, r := range b.Rem {
			tracked[n+r] = true
		}
		for k := 0; k < b.Add; k++ {
			live[n+k] = true
		}
		n += b.Add
	}
}

package props

// C01 - all implementations agree on the roots, for every history; the roots equal the
// reference value; the result does not depend on batching.

import (
	"fmt"
	u "github.com/utreexo/utreexo"
	"testing"

	"pgregory.net/rapid"
	"verifharness/model"
)

type C01Case struct {
	Blocks []Block `json:"blocks"`
	Maps   []Cfg   `json:"maps"`          // map-forest configurations run beside Stump and Pollard
	Alt    []Block `json:"alt,omitempty"` // the same per-slot fate, batched differently
	AltM   string  `json:"altmode,omitempty"`
	// Late: a map forest (full or partial) that joins at block LateAt from the BARE ROOTS of that moment
	// (NewMapPollardFromRoots): it knows none of the older leaves, learns the ones a block spends
	// through Verify(remember) right before that block, and must agree on the roots from then on.
	Late   *Cfg `json:"late,omitempty"`
	LateAt int  `json:"late_at,omitempty"`
}

func genC01(t *rapid.T) C01Case {
	lim := genLimitsGiant(t)
	c := C01Case{Blocks: genHistory(t, lim, true)}
	addPrunes(t, c.Blocks)
	nm := rapid.IntRange(2, 3).Draw(t, "nmaps")
	for i := 0; i < nm; i++ {
		c.Maps = append(c.Maps, genMapCfg(t, fmt.Sprintf("map%d", i)))
	}
	c.Maps[0].Full = true
	c.Maps[1].Full = false
	c.Alt, c.AltM = genRebatch(t, c.Blocks)
	if len(c.Blocks) >= 2 && rapid.IntRange(0, 2).Draw(t, "late") == 0 {
		c.Late = &Cfg{Kind: "map", Full: rapid.Bool().Draw(t, "late-full"), Rows: 63, Ext: rapid.IntRange(0, 3).Draw(t, "late-ext") == 0}
		c.LateAt = rapid.IntRange(1, len(c.Blocks)-1).Draw(t, "late-at")
	}
	return c
}

// genRebatch re-cuts a history into different blocks with the same final (N, survivors).
func genRebatch(t *rapid.T, blocks []Block) ([]Block, string) {
	total := 0
	addedIn := map[int]int{} // slot -> original block
	var dead []int
	for i, b := range blocks {
		for k := 0; k < b.Add; k++ {
			addedIn[total+k] = i
		}
		total += b.Add
		dead = append(dead, b.Del...)
	}
	mode := rapid.SampledFrom([]string{"oneshot", "split", "recut"}).Draw(t, "altmode")
	switch mode {
	case "oneshot":
		return []Block{{Add: total}, {Del: permute(t, dead, "altperm")}}, mode
	case "split":
		var out []Block
		for _, b := range blocks {
			cutD := rapid.IntRange(0, len(b.Del)).Draw(t, "cutd")
			cutA := rapid.IntRange(0, b.Add).Draw(t, "cuta")
			out = append(out, Block{Del: append([]int(nil), b.Del[:cutD]...), Add: cutA},
				Block{Del: append([]int(nil), b.Del[cutD:]...), Add: b.Add - cutA})
		}
		return out, mode
	default: // recut: new block boundaries on the add sequence, each deletion in any legal block
		nb := rapid.IntRange(1, len(blocks)+2).Draw(t, "altblocks")
		cuts := make([]int, nb+1)
		for i := 1; i < nb; i++ {
			cuts[i] = rapid.IntRange(cuts[i-1], total).Draw(t, "cut")
		}
		cuts[nb] = total
		out := make([]Block, nb+1) // last block: deletions only
		firstAfter := func(slot int) int {
			for j := 0; j < nb; j++ {
				if slot < cuts[j+1] { // added by block j; deletable from block j+1 on
					return j + 1
				}
			}
			return nb
		}
		for j := 0; j < nb; j++ {
			out[j].Add = cuts[j+1] - cuts[j]
		}
		for _, s := range dead {
			j := rapid.IntRange(firstAfter(s), nb).Draw(t, "delat")
			out[j].Del = append(out[j].Del, s)
		}
		return out, mode
	}
}

// lockstep drives a set of instances through a history next to the reference model.
type lockstep struct {
	f     *model.Forest
	insts []*Inst
}

func newLockstep(cfgs []Cfg) *lockstep {
	ls := &lockstep{f: &model.Forest{}}
	for _, c := range cfgs {
		ls.insts = append(ls.insts, newInst(c))
	}
	return ls
}

// step applies one block to every instance and checks count and roots against the model.
func (ls *lockstep) step(i int, b Block) error {
	v := ls.f.View()
	for _, s := range b.Del {
		if s < 0 || s >= len(ls.f.Dead) || ls.f.Dead[s] {
			return fmt.Errorf("case error: block %d deletes slot %d which is not live", i, s)
		}
	}
	delH := ls.f.HashesOf(b.Del)
	proof := v.Proof(delH)
	first := len(ls.f.Hashes)
	adds, _ := mkLeavesSalt(b.Salt, first, b.Add, func(k int) bool { return inSet(b.Rem, k) })
	if len(b.Bad) > 0 {
		for _, s := range b.Bad {
			if s < 0 || s >= len(ls.f.Dead) || ls.f.Dead[s] {
				return fmt.Errorf("case error: block %d: bad-block slot %d is not live", i, s)
			}
		}
		bh := append(ls.f.HashesOf(b.Bad), model.FreshHash(777+i))
		bp := v.Proof(ls.f.HashesOf(b.Bad))
		bp.Targets = append(bp.Targets, v.MaxPos()) // something for the unknown hash; never looked at
		for _, in := range ls.insts {
			if in.M == nil {
				continue // Stump.Update is C04's business, Pollard.Modify documents that it validates nothing
			}
			if in.M.Full || func() bool { // a partial forest gets there only if it knows the live ones
				for _, h := range bh[:len(bh)-1] {
					if _, ok := in.M.CachedLeaves.Get(h); !ok {
						return false
					}
				}
				return true
			}() {
				if err := in.M.Modify(nil, cloneHashes(bh), cloneProof(bp)); err == nil {
					return fmt.Errorf("before block %d: %s accepted a block spending a hash that is not a leaf of the forest", i, in.Cfg)
				}
				if err := in.checkRoots(v); err != nil {
					return fmt.Errorf("before block %d, after a REFUSED block (live slots %v + an unknown hash): %v", i, b.Bad, err)
				}
			}
		}
	}
	if len(b.Prune) > 0 {
		for _, s := range b.Prune {
			if s < 0 || s >= len(ls.f.Dead) || ls.f.Dead[s] {
				return fmt.Errorf("case error: block %d prunes slot %d which is not live", i, s)
			}
		}
		ph := ls.f.HashesOf(b.Prune)
		for _, in := range ls.insts {
			if in.M != nil && !in.M.Full {
				if err := in.M.Prune(cloneHashes(ph)); err != nil {
					return fmt.Errorf("block %d: %s: Prune(slots %v) failed: %v", i, in.Cfg, b.Prune, err)
				}
				if err := in.checkRoots(v); err != nil {
					return fmt.Errorf("before block %d, after Prune(slots %v): %v", i, b.Prune, err)
				}
			}
		}
	}
	if len(b.Learn) > 0 {
		for _, s := range b.Learn {
			if s < 0 || s >= len(ls.f.Dead) || ls.f.Dead[s] {
				return fmt.Errorf("case error: block %d: slot %d to be remembered is not live", i, s)
			}
		}
		lh := ls.f.HashesOf(b.Learn)
		lp := v.Proof(lh)
		for _, in := range ls.insts {
			if in.S != nil {
				continue
			}
			var err error
			partial := in.M != nil && !in.M.Full
			switch {
			case partial && b.LearnHow == "ingest":
				in.ar.next()
				err = in.M.Ingest(in.ar.hashes(lh), in.ar.proof(lp))
			case partial && b.LearnHow == "vpp":
				err = vppRemember(in.M, &in.ar, v, lp.Targets, lh)
			case b.LearnHow == "verify" || b.LearnHow == "ingest" || b.LearnHow == "vpp":
				in.ar.next()
				err = in.Acc().Verify(in.ar.hashes(lh), in.ar.proof(lp), true)
			default:
				return fmt.Errorf("case error: block %d: learnhow %q", i, b.LearnHow)
			}
			if err != nil {
				return fmt.Errorf("before block %d: %s: remembering the live slots %v (%s) with an honest proof failed: %v", i, in.Cfg, b.Learn, b.LearnHow, err)
			}
			if err := in.checkRoots(v); err != nil {
				return fmt.Errorf("before block %d, after remembering slots %v (%s): %v", i, b.Learn, b.LearnHow, err)
			}
		}
	}
	if b.Stale > 0 {
		sAdds, _ := mkLeavesSalt(900+i%50, first, b.Stale, func(int) bool { return true })
		for _, in := range ls.insts {
			if in.S != nil {
				continue // a stump keeps no history: its caller goes back to the copy it kept
			}
			if err := in.Apply(sAdds, nil, u.Proof{}); err != nil {
				return fmt.Errorf("before block %d: %s rejected a stale tip adding %d leaves: %v", i, in.Cfg, b.Stale, err)
			}
			in.ar.next()
			if err := in.Acc().Undo(uint64(b.Stale), u.Proof{}, nil, in.ar.hashes(v.Roots)); err != nil {
				return fmt.Errorf("before block %d: %s: Undo of a stale tip adding %d leaves failed: %v", i, in.Cfg, b.Stale, err)
			}
			if err := in.checkRoots(v); err != nil {
				return fmt.Errorf("before block %d, after a stale tip adding %d leaves was applied and undone: %v", i, b.Stale, err)
			}
		}
	}
	for _, in := range ls.insts {
		if err := in.Apply(adds, delH, proof); err != nil {
			return fmt.Errorf("block %d: %s rejected a valid block: %v", i, in.Cfg, err)
		}
	}
	applyToModel(ls.f, b)
	v2 := ls.f.View()
	for _, in := range ls.insts {
		if err := in.checkRoots(v2); err != nil {
			return fmt.Errorf("after block %d: %v", i, err)
		}
	}
	return nil
}

func runC01(c C01Case) *Result {
	res := &Result{}
	cfgs := append([]Cfg{{Kind: "stump"}, {Kind: "pollard"}}, c.Maps...)
	for _, m := range c.Maps {
		res.class(fmt.Sprintf("rows=%d", m.Rows))
		res.class(fmt.Sprintf("full=%v", m.Full))
	}
	ls := newLockstep(cfgs)
	var late *Inst
	if c.Late != nil && (c.LateAt < 1 || c.LateAt >= len(c.Blocks) || c.Late.Kind != "map") {
		return res.failf("case error: late joiner at block %d of %d", c.LateAt, len(c.Blocks))
	}
	var anyDel, anyAdd, special bool
	for i, b := range c.Blocks {
		sh := shapeOf(ls.f, b)
		res.class("del:" + b.DM)
		res.class("add:" + b.AM)
		anyDel = anyDel || sh.deletes
		anyAdd = anyAdd || sh.adds
		for name, on := range map[string]bool{"emptiesTree": sh.emptiesTree, "overwritesEmpty": sh.overwritesEmpty,
			"crossesPow2": sh.crossesPow2, "climbed>=2": sh.climbed, "delAll": sh.delAll, "delRoot": sh.delRoot, "delSiblings": sh.delSibs} {
			if on {
				res.class("shape:" + name)
				if name != "delAll" && name != "delRoot" && name != "delSiblings" {
					special = true
				}
			}
		}
		// the late joiner: created from the bare roots right before block LateAt
		var lateArgs struct {
			delH  []Hash
			proof u.Proof
			adds  []u.Leaf
		}
		if c.Late != nil && i >= c.LateAt {
			v := ls.f.View()
			if i == c.LateAt {
				m := u.NewMapPollardFromRoots(cloneHashes(v.Roots), v.N, c.Late.Full)
				if c.Late.Ext {
					extStores(&m)
				}
				late = &Inst{Cfg: *c.Late, M: &m}
				res.class(fmt.Sprintf("late-joiner:full=%v", c.Late.Full))
			}
			lateArgs.delH = ls.f.HashesOf(b.Del)
			lateArgs.proof = v.Proof(lateArgs.delH)
			lateArgs.adds, _ = mkLeavesSalt(b.Salt, len(ls.f.Hashes), b.Add, func(k int) bool { return inSet(b.Rem, k) })
		}
		if err := ls.step(i, b); err != nil {
			return res.failf("%v", err)
		}
		if late != nil {
			where := fmt.Sprintf("block %d, %s started from the bare roots before block %d", i, late.Cfg, c.LateAt)
			if len(lateArgs.delH) > 0 {
				// it may or may not know these leaves: learn them the documented way
				if err := late.M.Verify(cloneHashes(lateArgs.delH), cloneProof(lateArgs.proof), true); err != nil {
					return res.failf("%s: Verify(remember) of the block's honest proof failed: %v", where, err)
				}
			}
			if err := late.M.Modify(lateArgs.adds, cloneHashes(lateArgs.delH), cloneProof(lateArgs.proof)); err != nil {
				return res.failf("%s: Modify rejected a valid block whose deletions it had just verified with remember: %v", where, err)
			}
			if err := late.checkRoots(ls.f.View()); err != nil {
				return res.failf("%s: %v", where, err)
			}
			res.count("late-joiner-blocks", 1)
		}
	}
	res.NonTrivial = anyDel && anyAdd && special
	res.count("blocks", len(c.Blocks))

	// metamorphic re-batching: same survivors and slots, different blocks, same roots
	if len(c.Alt) > 0 {
		res.class("alt:" + c.AltM)
		alt := newLockstep([]Cfg{{Kind: "stump"}, {Kind: "pollard"}, c.Maps[len(c.Maps)-1]})
		for i, b := range c.Alt {
			if err := alt.step(i, b); err != nil {
				return res.failf("re-batched history (%s): %v", c.AltM, err)
			}
		}
		want := ls.insts[0].Roots()
		for _, in := range alt.insts {
			if in.NumLeaves() != ls.insts[0].NumLeaves() || !eqHashes(in.Roots(), want) {
				return res.failf("re-batched history (%s): %s ends with different roots than the original batching", c.AltM, in.Cfg)
			}
		}
	}
	return res
}

func TestC01(t *testing.T) {
	runSpec(t, Spec[C01Case]{ID: "C01", Gen: genC01, Run: runC01, Pre: preScaleC01})
}

package props

// C17 - library calls never modify the caller's slices, and earlier results stay what they were.
//
// Every slice handed to the library is a "guarded" slice: a sub-slice of a larger backing array
// whose tail (beyond len, up to cap) holds sentinel values, as a caller's own sub-slice would
// (README: Prove(hashes[:1]), Modify(nil, hashes[:1], proof)). After every call the whole backing
// array (0..cap) of every guarded argument of the block is compared with its snapshot, and every
// slice the library returned earlier ("ledger") is compared with the snapshot taken on return.
// The same guarded block data is used for every verifier and every implementation, undone and
// re-applied, never copied.

import (
	"fmt"
	"sort"
	"testing"

	u "github.com/utreexo/utreexo"
	"pgregory.net/rapid"
	"verifharness/model"
)

type C17Block struct {
	B        Block `json:"b"`
	UndoRedo bool  `json:"undoredo,omitempty"` // apply, undo, apply again with the same slices
	Other    []int `json:"other,omitempty"`    // second target set (live before the block) for AddProof
	Wants    []int `json:"wants,omitempty"`    // indexes into B.Del: restriction request, in this order
	PolRem   bool  `json:"polrem,omitempty"`   // remember flag passed to Pollard.Verify / full map Verify
}

type C17Case struct {
	Maps   []Cfg      `json:"maps"` // [0] full, [1] partial
	Blocks []C17Block `json:"blocks"`
}

func genC17(t *rapid.T) C17Case {
	lim := tierLimits()
	if !thorough() {
		lim.maxLeaves, lim.maxBlocks = 64, 8
	} else {
		lim.maxLeaves, lim.maxBlocks, lim.maxAdd = 400, 20, 60
	}
	if bigCase(t) {
		lim.maxLeaves, lim.maxBlocks, lim.maxAdd = 700, 10, 300
	}
	full, part := genMapCfg(t, "full"), genMapCfg(t, "part")
	full.Full, part.Full = true, false
	// TotalRows equal to the rows the forest needs is where a map forest translates nothing
	// (and so copies nothing): make that common
	if rapid.Bool().Draw(t, "full-tight") {
		full.Rows = 0
	}
	if rapid.Bool().Draw(t, "part-tight") {
		part.Rows = 0
	}
	c := C17Case{Maps: []Cfg{full, part}}
	f := &model.Forest{}
	n := rapid.IntRange(1, lim.maxBlocks).Draw(t, "nblocks")
	for i := 0; i < n; i++ {
		var cb C17Block
		if f.NumLive() > 0 {
			cb.Other = genRequest(t, f)
		}
		cb.B = genBlock(t, f, lim, true) // advances f
		if len(cb.B.Del) > 0 {
			idx := make([]int, len(cb.B.Del))
			for k := range idx {
				idx[k] = k
			}
			w := subsetP(t, idx, 1, 2, "want")
			if len(w) == 0 {
				w = idx[:1]
			}
			cb.Wants = permute(t, w, "wantperm")
		}
		cb.UndoRedo = rapid.IntRange(0, 2).Draw(t, "undoredo") == 0
		cb.PolRem = rapid.Bool().Draw(t, "polrem")
		c.Blocks = append(c.Blocks, cb)
	}
	return c
}

// ---- guarded slices -----------------------------------------------------------------------

type guard struct {
	name  string
	check func() string // "" when unchanged
}

const spare = 3

func guardHashes(name string, h []Hash) ([]Hash, guard) {
	back := make([]Hash, len(h)+spare)
	copy(back, h)
	for i := len(h); i < len(back); i++ {
		back[i] = model.FreshHash(7000 + i)
	}
	snap := append([]Hash(nil), back...)
	s := back[:len(h)]
	return s, guard{name, func() string {
		for i := range snap {
			if back[i] != snap[i] {
				where := "element"
				if i >= len(h) {
					where = "spare-capacity element (an append wrote into the caller's backing array)"
				}
				return fmt.Sprintf("%s %d of %s changed from %s to %s", where, i, name, shortH(snap[i]), shortH(back[i]))
			}
		}
		return ""
	}}
}

func guardU64(name string, x []uint64) ([]uint64, guard) {
	back := make([]uint64, len(x)+spare)
	copy(back, x)
	for i := len(x); i < len(back); i++ {
		back[i] = 0xdead0000beef0000 + uint64(i)
	}
	snap := append([]uint64(nil), back...)
	s := back[:len(x)]
	return s, guard{name, func() string {
		for i := range snap {
			if back[i] != snap[i] {
				where := "element"
				if i >= len(x) {
					where = "spare-capacity element (an append wrote into the caller's backing array)"
				}
				return fmt.Sprintf("%s %d of %s changed from %d to %d (whole slice was %v, is %v)", where, i, name, snap[i], back[i], snap[:len(x)], back[:len(x)])
			}
		}
		return ""
	}}
}

func guardU32(name string, x []uint32) ([]uint32, guard) {
	back := make([]uint32, len(x)+spare)
	copy(back, x)
	for i := len(x); i < len(back); i++ {
		back[i] = 0xdead0000 + uint32(i)
	}
	snap := append([]uint32(nil), back...)
	s := back[:len(x)]
	return s, guard{name, func() string {
		for i := range snap {
			if back[i] != snap[i] {
				return fmt.Sprintf("element %d of %s changed from %d to %d", i, name, snap[i], back[i])
			}
		}
		return ""
	}}
}

func guardLeaves(name string, x []u.Leaf) ([]u.Leaf, guard) {
	back := make([]u.Leaf, len(x)+spare)
	copy(back, x)
	for i := len(x); i < len(back); i++ {
		back[i] = u.Leaf{Hash: model.FreshHash(7100 + i), Remember: true}
	}
	snap := append([]u.Leaf(nil), back...)
	s := back[:len(x)]
	return s, guard{name, func() string {
		for i := range snap {
			if back[i] != snap[i] {
				return fmt.Sprintf("element %d of %s changed", i, name)
			}
		}
		return ""
	}}
}

// ledger of values the library returned: content at return time must stay.
type ledger struct{ gs []guard }

func (l *ledger) hashes(name string, h []Hash) {
	snap := append([]Hash(nil), h...)
	l.gs = append(l.gs, guard{name, func() string {
		for i := range snap {
			if h[i] != snap[i] {
				return fmt.Sprintf("element %d of %s (returned earlier) changed from %s to %s", i, name, shortH(snap[i]), shortH(h[i]))
			}
		}
		return ""
	}})
}

func (l *ledger) u64(name string, x []uint64) {
	snap := append([]uint64(nil), x...)
	l.gs = append(l.gs, guard{name, func() string {
		for i := range snap {
			if x[i] != snap[i] {
				return fmt.Sprintf("element %d of %s (returned earlier) changed from %d to %d (was %v, is %v)", i, name, snap[i], x[i], snap, x)
			}
		}
		return ""
	}})
}

func (l *ledger) proof(name string, p u.Proof) {
	l.u64(name+".Targets", p.Targets)
	l.hashes(name+".Proof", p.Proof)
}

func (l *ledger) updateData(name string, ud u.UpdateData) {
	l.u64(name+".ToDestroy", ud.ToDestroy)
	l.hashes(name+".NewDelHash", ud.NewDelHash)
	l.u64(name+".NewDelPos", ud.NewDelPos)
	l.hashes(name+".NewAddHash", ud.NewAddHash)
	l.u64(name+".NewAddPos", ud.NewAddPos)
}

func (l *ledger) trim(max int) {
	if len(l.gs) > max {
		l.gs = l.gs[len(l.gs)-max:]
	}
}

func runC17(c C17Case) *Result {
	res := &Result{}
	if len(c.Maps) != 2 || !c.Maps[0].Full || c.Maps[1].Full {
		return res.failf("case error: maps must be [full, partial]")
	}
	f := &model.Forest{}
	stump := &u.Stump{}
	pol := newInst(Cfg{Kind: "pollard"})
	mfull, mpart := newInst(c.Maps[0]), newInst(c.Maps[1])
	lcProof := u.Proof{}
	var lcHashes []Hash
	led := &ledger{}
	calls := 0

	for bi, cb := range c.Blocks {
		b := cb.B
		for _, s := range b.Del {
			if s < 0 || s >= len(f.Dead) || f.Dead[s] {
				return res.failf("case error: block %d deletes slot %d which is not live", bi, s)
			}
		}
		for _, s := range cb.Other {
			if s < 0 || s >= len(f.Dead) || f.Dead[s] {
				return res.failf("case error: block %d: other slot %d not live", bi, s)
			}
		}
		v := f.View()
		hadDeletion := f.NumLive() < len(f.Hashes)
		var args []guard
		// after runs the guards; setupErr != nil means the library refused an honest call (not C17's business)
		after := func(call string, setupErr error) (stop bool) {
			calls++
			for _, g := range args {
				if d := g.check(); d != "" {
					res.failf("block %d: %s modified its caller's data: %s", bi, call, d)
					return true
				}
			}
			for _, g := range led.gs {
				if d := g.check(); d != "" {
					res.failf("block %d: after %s: %s", bi, call, d)
					return true
				}
			}
			if setupErr != nil {
				res.class("setup-failed")
				return true
			}
			return false
		}

		// ---- Prove: argument and earlier results
		delHplain := f.HashesOf(b.Del)
		unsorted := false
		{
			ph, g := guardHashes("Prove.hashes", delHplain)
			args = append(args, g)
			p1, err := pol.P.Prove(ph)
			if after("Pollard.Prove", err) {
				return res
			}
			led.proof(fmt.Sprintf("block %d Pollard.Prove result", bi), p1)
			p2, err := mfull.M.Prove(ph)
			if after("MapPollard.Prove", err) {
				return res
			}
			led.proof(fmt.Sprintf("block %d MapPollard.Prove result", bi), p2)
			if !sort.SliceIsSorted(p1.Targets, func(a, b int) bool { return p1.Targets[a] < p1.Targets[b] }) {
				unsorted = true
			}
		}
		canon := v.Proof(delHplain)

		// ---- the block data, guarded once and used for everything below
		delH, g1 := guardHashes("block.delHashes", delHplain)
		targets, g2 := guardU64("block.proof.Targets", canon.Targets)
		phs, g3 := guardHashes("block.proof.Proof", canon.Proof)
		adds0, addH0 := mkLeaves(len(f.Hashes), b.Add, func(k int) bool { return inSet(b.Rem, k) })
		adds, g4 := guardLeaves("block.adds", adds0)
		addH, g5 := guardHashes("block.addHashes", addH0)
		prevRoots, g6 := guardHashes("undo.prevRoots", v.Roots)
		args = append(args, g1, g2, g3, g4, g5, g6)
		bp := u.Proof{Targets: targets, Proof: phs}

		if len(delH) > 0 {
			sroots, gs := guardHashes("Verify.stump.Roots", stump.Roots)
			args = append(args, gs)
			_, err := u.Verify(u.Stump{Roots: sroots, NumLeaves: stump.NumLeaves}, delH, bp)
			if after("Verify", err) {
				return res
			}
			if after("Pollard.Verify", pol.P.Verify(delH, bp, cb.PolRem)) {
				return res
			}
			if after("MapPollard(full).Verify", mfull.M.Verify(delH, bp, cb.PolRem)) {
				return res
			}
			// partial forest: missing positions, partial proof, then the full proof with remember
			miss := mpart.M.GetMissingPositions(targets)
			if after("MapPollard.GetMissingPositions", nil) {
				return res
			}
			led.u64(fmt.Sprintf("block %d GetMissingPositions result", bi), miss)
			supply, gsp := guardHashes("VerifyPartialProof.proofHashes", hashesAt(v, miss))
			args = append(args, gsp)
			if after("MapPollard.VerifyPartialProof", mpart.M.VerifyPartialProof(targets, delH, supply, rapidBoolFrom(bi, len(b.Del)))) {
				return res
			}
			if after("MapPollard(partial).Verify(remember)", mpart.M.Verify(delH, bp, true)) {
				return res
			}

			// ---- AddProof / GetProofSubset on the block proof
			if len(cb.Other) > 0 {
				oh0 := f.HashesOf(cb.Other)
				op := v.Proof(oh0)
				oh, go1 := guardHashes("AddProof.targetHashesB", oh0)
				ot, go2 := guardU64("AddProof.proofB.Targets", op.Targets)
				oph, go3 := guardHashes("AddProof.proofB.Proof", op.Proof)
				args = append(args, go1, go2, go3)
				rh, rp := u.AddProof(bp, u.Proof{Targets: ot, Proof: oph}, delH, oh, v.N)
				if after("AddProof", nil) {
					return res
				}
				led.hashes(fmt.Sprintf("block %d AddProof hashes", bi), rh)
				led.proof(fmt.Sprintf("block %d AddProof proof", bi), rp)
			}
			if len(cb.Wants) > 0 {
				w0 := make([]uint64, 0, len(cb.Wants))
				for _, k := range cb.Wants {
					if k < 0 || k >= len(targets) {
						return res.failf("case error: want index %d", k)
					}
					w0 = append(w0, targets[k])
				}
				wants, gw := guardU64("GetProofSubset.wants", w0)
				args = append(args, gw)
				rh, rp, err := u.GetProofSubset(bp, delH, wants, v.N)
				if after("GetProofSubset", err) {
					return res
				}
				led.hashes(fmt.Sprintf("block %d GetProofSubset hashes", bi), rh)
				led.proof(fmt.Sprintf("block %d GetProofSubset proof", bi), rp)
				// the same request with a position the proof does not cover slipped in after its first entry: it is
				// refused, and a refused call may not touch its arguments either (the caller drops the stranger and retries)
				inT := map[uint64]bool{}
				for _, tg := range targets {
					inT[tg] = true
				}
				for _, sl := range f.Live() {
					if p := v.SlotPos[sl]; !inT[p] {
						bad0 := append(append(append([]uint64(nil), w0[:1]...), p), w0[1:]...)
						bad, gb := guardU64("GetProofSubset(refused).wants", bad0)
						args = append(args, gb)
						u.GetProofSubset(bp, delH, bad, v.N)
						if after("GetProofSubset (a request it has to refuse)", nil) {
							return res
						}
						res.count("refused-subset-requests", 1)
						break
					}
				}
			}
		}

		// ---- apply everywhere with the same slices; optionally undo and apply again
		rounds := 1
		if cb.UndoRedo {
			rounds = 2
			res.class("undo-redo")
		}
		rem0 := make([]uint32, len(b.Rem))
		for k, r := range b.Rem {
			rem0[k] = uint32(r)
		}
		rems, g7 := guardU32("Proof.Update.remembers", rem0)
		args = append(args, g7)
		for round := 0; round < rounds; round++ {
			prevStump := copyStump(*stump)
			ud, err := stump.Update(delH, addH, bp)
			if after("Stump.Update", err) {
				return res
			}
			led.updateData(fmt.Sprintf("block %d round %d UpdateData", bi, round), ud)
			cached, gc := guardHashes("Proof.Update.cachedHashes", lcHashes)
			udDelH, gu1 := guardHashes("updateData.NewDelHash", ud.NewDelHash)
			udDelP, gu2 := guardU64("updateData.NewDelPos", ud.NewDelPos)
			udAddH, gu3 := guardHashes("updateData.NewAddHash", ud.NewAddHash)
			udAddP, gu4 := guardU64("updateData.NewAddPos", ud.NewAddPos)
			udDes, gu5 := guardU64("updateData.ToDestroy", ud.ToDestroy)
			args = append(args, gc, gu1, gu2, gu3, gu4, gu5)
			gud := u.UpdateData{ToDestroy: udDes, PrevNumLeaves: ud.PrevNumLeaves, NewDelHash: udDelH, NewDelPos: udDelP, NewAddHash: udAddH, NewAddPos: udAddP}
			prevLC := cloneProof(lcProof)
			newH, err := lcProof.Update(cached, addH, targets, rems, gud)
			if after("Proof.Update", err) {
				return res
			}
			led.hashes(fmt.Sprintf("block %d round %d Proof.Update result", bi, round), newH)
			// the cached proof itself is a result too: a caller may keep a copy of the Proof value
			// (kept := proof) and expects it to stay the proof of THIS state
			led.proof(fmt.Sprintf("block %d round %d cached proof after Proof.Update", bi, round), lcProof)

			if after("Pollard.Modify", pol.P.Modify(adds, delH, bp)) {
				return res
			}
			if after("MapPollard(full).Modify", mfull.M.Modify(adds, delH, bp)) {
				return res
			}
			if after("MapPollard(partial).Modify", mpart.M.Modify(adds, delH, bp)) {
				return res
			}
			led.hashes(fmt.Sprintf("block %d Pollard.GetRoots", bi), pol.P.GetRoots())
			led.hashes(fmt.Sprintf("block %d MapPollard.GetRoots", bi), mfull.M.GetRoots())
			st := mpart.M.GetStump()
			led.hashes(fmt.Sprintf("block %d MapPollard.GetStump().Roots", bi), st.Roots)

			if round+1 < rounds {
				// undo everywhere with the same block data, then go round again
				if after("Pollard.Undo", pol.P.Undo(uint64(b.Add), bp, delH, prevRoots)) {
					return res
				}
				if after("MapPollard(full).Undo", mfull.M.Undo(uint64(b.Add), bp, delH, prevRoots)) {
					return res
				}
				if after("MapPollard(partial).Undo", mpart.M.Undo(uint64(b.Add), bp, delH, prevRoots)) {
					return res
				}
				cachedU, gcu := guardHashes("Proof.Undo.cachedHashes", newH)
				args = append(args, gcu)
				backH, err := lcProof.Undo(uint64(b.Add), stump.NumLeaves, targets, delH, cachedU, udDes, bp)
				if after("Proof.Undo", err) {
					return res
				}
				led.hashes(fmt.Sprintf("block %d Proof.Undo result", bi), backH)
				led.proof(fmt.Sprintf("block %d cached proof after Proof.Undo", bi), lcProof)
				// resynchronise the light client to the exact pre-block value so that both rounds get the same input
				lcProof = prevLC
				*stump = prevStump
			} else {
				lcHashes = newH
			}
		}
		applyToModel(f, b)
		v2 := f.View()
		for _, in := range []*Inst{{Cfg: Cfg{Kind: "stump"}, S: stump}, pol, mfull, mpart} {
			if err := in.checkRoots(v2); err != nil {
				// with all guards intact a wrong root is some other property's business
				res.class("setup-failed")
				return res
			}
		}
		if len(b.Del) >= 2 && unsorted && hadDeletion {
			res.NonTrivial = true
		}
		res.count("guarded-calls", calls)
		calls = 0
		led.trim(60)
	}
	return res
}

// rapidBoolFrom derives the VerifyPartialProof remember flag from case data (no RNG in Run).
func rapidBoolFrom(a, b int) bool { return (a+b)%2 == 0 }

func TestC17(t *testing.T) {
	runSpec(t, Spec[C17Case]{ID: "C17", Gen: genC17, Run: runC17, Pre: preScaleC17})
}

package props

// C06 - Undo is the exact inverse of a block, to any reorganisation depth.

import (
	"bytes"
	"fmt"
	"sort"
	"testing"

	u "github.com/utreexo/utreexo"
	"pgregory.net/rapid"
	"verifharness/model"
)

type C06Step struct {
	Op string `json:"op"` // block | undo | restore (every forest written out and replaced by what its bytes restore to)
	B  *Block `json:"b,omitempty"`
}

type C06Case struct {
	Cfgs  []Cfg     `json:"cfgs"` // pollard, full map, partial map
	Steps []C06Step `json:"steps"`
	// Late: a map forest (full or partial) created from the BARE ROOTS right before step LateAt; it learns
	// what each later block spends through Verify(remember), applies the blocks and follows every undo -
	// also the undos of blocks that were applied before it existed
	Late   *Cfg `json:"late,omitempty"`
	LateAt int  `json:"late_at,omitempty"`
}

func genC06(t *rapid.T) C06Case {
	lim := genLimits(t)
	full, part := genMapCfg(t, "full"), genMapCfg(t, "part")
	full.Full, part.Full = true, false
	c := C06Case{Cfgs: []Cfg{{Kind: "pollard"}, full, part}}
	type frame struct {
		f *model.Forest
		b Block
	}
	f := &model.Forest{}
	var stack []frame
	var undone []Block // blocks undone since the last new block, newest undo last (candidates for redo)
	branch := 0
	n := rapid.IntRange(2, lim.maxBlocks+6).Draw(t, "nsteps")
	for i := 0; i < n; i++ {
		op := rapid.SampledFrom([]string{"block", "block", "block", "undo", "undo", "redo"}).Draw(t, "op")
		if len(stack) > 0 && rapid.IntRange(0, 7).Draw(t, "restore") == 0 {
			// the node is shut down and started again between a block and its undo
			c.Steps = append(c.Steps, C06Step{Op: "restore"})
		}
		if op == "undo" && len(stack) == 0 {
			op = "block"
		}
		if op == "redo" && len(undone) == 0 {
			op = "block"
		}
		switch op {
		case "undo":
			k := 1
			if rapid.IntRange(0, 2).Draw(t, "deep") == 0 {
				k = rapid.IntRange(1, len(stack)).Draw(t, "depth")
			}
			for ; k > 0; k-- {
				top := stack[len(stack)-1]
				stack = stack[:len(stack)-1]
				f = top.f
				undone = append(undone, top.b)
				c.Steps = append(c.Steps, C06Step{Op: "undo"})
			}
			branch++
		case "redo":
			b := undone[len(undone)-1]
			undone = undone[:len(undone)-1]
			stack = append(stack, frame{f.Clone(), b})
			applyToModel(f, b)
			bb := b
			c.Steps = append(c.Steps, C06Step{Op: "block", B: &bb})
		default:
			prev := f.Clone()
			undone = nil
			b := genBlockSalt(t, f, lim, true, branch)
			stack = append(stack, frame{prev, b})
			bb := b
			c.Steps = append(c.Steps, C06Step{Op: "block", B: &bb})
		}
	}
	if rapid.IntRange(0, 3).Draw(t, "late") == 0 {
		c.Late = &Cfg{Kind: "map", Full: rapid.Bool().Draw(t, "late-full"), Rows: 63, Ext: rapid.IntRange(0, 3).Draw(t, "late-ext") == 0}
		c.LateAt = rapid.IntRange(0, len(c.Steps)-1).Draw(t, "late-at")
	}
	return c
}

func genBlockSalt(t *rapid.T, f *model.Forest, lim limits, remember bool, salt int) Block {
	g := f.Clone()
	b := genBlock(t, g, lim, remember)
	b.Salt = salt
	applyToModel(f, b)
	return b
}

type c06Frame struct {
	before  *model.Forest
	b       Block
	delH    []Hash
	proofT  []uint64
	proofH  []Hash
	roots   []Hash
	snaps   []snapshot // per instance, taken right before Modify
	tracked []int      // partial forest: slots tracked right before Modify
	shape   blockShape
}

func runC06(c C06Case) *Result {
	res := &Result{}
	if len(c.Cfgs) == 0 {
		return res.failf("case error: no configurations")
	}
	var insts []*Inst
	for _, cf := range c.Cfgs {
		if cf.Kind == "stump" {
			return res.failf("case error: a stump cannot undo")
		}
		insts = append(insts, newInst(cf))
	}
	f := &model.Forest{}
	var stack []c06Frame
	tracked := map[int]bool{} // partial forests: slots asked to remember and not deleted/undone
	var everAdded []Hash      // every leaf hash ever added on any branch
	seenAdded := map[Hash]bool{}
	depth := 0 // consecutive undos so far
	trackedList := func() []int {
		var l []int
		for s := range tracked {
			l = append(l, s)
		}
		return l
	}
	checkAll := func(when string) error {
		for _, in := range insts {
			var err error
			if in.P != nil || in.M.Full {
				err = checkFullForest(in, f, everAdded, false)
			} else {
				err = checkPartialForest(in, f, trackedList(), false)
			}
			if err != nil {
				return fmt.Errorf("%s: %v", when, err)
			}
		}
		return nil
	}
	probeSubsets := func(slots []int) [][]Hash {
		var out [][]Hash
		for _, sub := range proveSubsets(slots) {
			out = append(out, f.HashesOf(sub))
		}
		return out
	}
	// the late joiner and the slots it can be expected to prove: what it verified with remember or was
	// told to remember (a full forest: everything added) since it exists, minus what was spent
	var late *Inst
	lateDepth := 0 // blocks on the undo stack that were applied before the joiner existed
	lateTracked := map[int]bool{}
	lateCheck := func(when string) error {
		if late == nil {
			return nil
		}
		v := f.View()
		if err := late.checkRoots(v); err != nil {
			return fmt.Errorf("%s: started from the bare roots before step %d: %v", when, c.LateAt, err)
		}
		var slots []int
		for s := range lateTracked {
			slots = append(slots, s)
		}
		sort.Ints(slots)
		for _, sub := range proveSubsets(slots) {
			hs := f.HashesOf(sub)
			got, err := late.M.Prove(cloneHashes(hs))
			if err != nil {
				return fmt.Errorf("%s: %s started from the bare roots before step %d: Prove(slots %v) failed: %v", when, late.Cfg, c.LateAt, sub, err)
			}
			if want := v.Proof(hs); !eqProof(got, want) {
				return fmt.Errorf("%s: %s started from the bare roots before step %d: Prove(slots %v) = %s, canonical %s", when, late.Cfg, c.LateAt, sub, proofStr(got), proofStr(want))
			}
		}
		return nil
	}
	for i, st := range c.Steps {
		if c.Late != nil && i == c.LateAt {
			v := f.View()
			m := u.NewMapPollardFromRoots(cloneHashes(v.Roots), v.N, c.Late.Full)
			if c.Late.Ext {
				extStores(&m)
			}
			late = &Inst{Cfg: *c.Late, M: &m}
			lateDepth = len(stack)
			res.class(fmt.Sprintf("late-joiner:full=%v", c.Late.Full))
		}
		switch st.Op {
		case "block":
			if st.B == nil {
				return res.failf("case error: block step without block")
			}
			b := *st.B
			for _, s := range b.Del {
				if s < 0 || s >= len(f.Dead) || f.Dead[s] {
					return res.failf("case error: step %d deletes slot %d which is not live", i, s)
				}
			}
			depth = 0
			v := f.View()
			delH := f.HashesOf(b.Del)
			proof := v.Proof(delH)
			fr := c06Frame{before: f.Clone(), b: b, delH: delH, proofT: cloneU64(proof.Targets), proofH: cloneHashes(proof.Proof), roots: cloneHashes(v.Roots), shape: shapeOf(f, b)}
			adds, addH := mkLeavesSalt(b.Salt, len(f.Hashes), b.Add, func(k int) bool { return inSet(b.Rem, k) })
			// partial forests first verify-and-remember what the block deletes
			for _, in := range insts {
				if in.M != nil && !in.M.Full && len(delH) > 0 {
					if err := in.M.Verify(cloneHashes(delH), cloneProof(proof), true); err != nil {
						return res.failf("step %d: %s Verify(remember) of the block's honest proof: %v", i, in.Cfg, err)
					}
				}
			}
			for _, s := range b.Del {
				tracked[s] = true
			}
			fr.tracked = trackedList()
			maxPos := v.MaxPos()
			for _, in := range insts {
				slots := f.Live()
				if in.M != nil && !in.M.Full {
					slots = fr.tracked
				}
				fr.snaps = append(fr.snaps, takeSnapshot(in, everAdded, maxPos, probeSubsets(slots)))
			}
			for _, in := range insts {
				if err := in.Acc().Modify(append(adds[:0:0], adds...), cloneHashes(delH), cloneProof(proof)); err != nil {
					return res.failf("step %d: %s Modify rejected a valid block: %v", i, in.Cfg, err)
				}
			}
			if late != nil {
				if len(delH) > 0 {
					if err := late.M.Verify(cloneHashes(delH), cloneProof(proof), true); err != nil {
						return res.failf("step %d: %s started from the bare roots before step %d: Verify(remember) of the block's honest proof: %v", i, late.Cfg, c.LateAt, err)
					}
				}
				if err := late.M.Modify(append(adds[:0:0], adds...), cloneHashes(delH), cloneProof(proof)); err != nil {
					return res.failf("step %d: %s started from the bare roots before step %d: Modify rejected a valid block whose deletions it had just verified with remember: %v", i, late.Cfg, c.LateAt, err)
				}
				for _, s := range b.Del {
					delete(lateTracked, s)
				}
				for k := 0; k < b.Add; k++ {
					if late.M.Full || inSet(b.Rem, k) {
						lateTracked[len(f.Hashes)+k] = true
					}
				}
				res.count("late-joiner-blocks", 1)
			}
			applyToModel(f, b)
			for _, s := range b.Del {
				delete(tracked, s)
			}
			for k := range addH {
				if !seenAdded[addH[k]] {
					seenAdded[addH[k]] = true
					everAdded = append(everAdded, addH[k])
				}
				if inSet(b.Rem, k) {
					tracked[len(f.Hashes)-b.Add+k] = true
				}
			}
			stack = append(stack, fr)
			if err := checkAll(fmt.Sprintf("after block at step %d", i)); err != nil {
				return res.failf("%v", err)
			}
			if err := lateCheck(fmt.Sprintf("after block at step %d", i)); err != nil {
				return res.failf("%v", err)
			}
		case "undo":
			if len(stack) == 0 {
				return res.failf("case error: undo with empty history")
			}
			fr := stack[len(stack)-1]
			stack = stack[:len(stack)-1]
			depth++
			nBefore := len(fr.before.Hashes)
			for _, in := range insts {
				in.ar.next()
				proofH := fr.proofH
				if in.M != nil && in.M.Full && i%2 == 1 {
					// a full forest rebuilds the proof hashes itself when the undo record carries the targets only
					// (undoDeletion: "Since we're full, we can just build the proofs"): every other undo uses that
					proofH = nil
					res.count("full-forest-undos-from-a-targets-only-record", 1)
				}
				err := in.Acc().Undo(uint64(fr.b.Add), in.ar.proofTH(fr.proofT, proofH), in.ar.hashes(fr.delH), in.ar.hashes(fr.roots))
				if err != nil {
					return res.failf("step %d: %s Undo (depth %d) of block {del %v, add %d} failed: %v", i, in.Cfg, depth, fr.b.Del, fr.b.Add, err)
				}
			}
			if late != nil {
				if err := late.M.Undo(uint64(fr.b.Add), u.Proof{Targets: cloneU64(fr.proofT), Proof: cloneHashes(fr.proofH)}, cloneHashes(fr.delH), cloneHashes(fr.roots)); err != nil {
					return res.failf("step %d: %s started from the bare roots before step %d: Undo (depth %d) of block {del %v, add %d} failed: %v", i, late.Cfg, c.LateAt, depth, fr.b.Del, fr.b.Add, err)
				}
				for s := range lateTracked {
					if s >= nBefore {
						delete(lateTracked, s)
					}
				}
				if len(stack) < lateDepth {
					// a block from before the joiner existed: whether the leaves this undo brings back count as
					// remembered is not fixed by any statement (the forest never saw them); they are followed
					// if the forest tracks them
					lateDepth = len(stack)
					for _, s := range fr.b.Del {
						if _, ok := late.M.CachedLeaves.Get(fr.before.Hashes[s]); ok {
							lateTracked[s] = true
						}
					}
					res.count("late-joiner-undos-behind-its-snapshot", 1)
				} else {
					for _, s := range fr.b.Del {
						lateTracked[s] = true // it had verified them with remember right before the block
					}
				}
				res.count("late-joiner-undos", 1)
			}
			f = fr.before
			for s := range tracked {
				if s >= nBefore {
					delete(tracked, s)
				}
			}
			for _, s := range fr.b.Del {
				tracked[s] = true
			}
			if err := checkAll(fmt.Sprintf("after undo (depth %d) at step %d", depth, i)); err != nil {
				return res.failf("%v", err)
			}
			if err := lateCheck(fmt.Sprintf("after undo (depth %d) at step %d", depth, i)); err != nil {
				return res.failf("%v", err)
			}
			// observational identity with the snapshot taken before the block
			v := f.View()
			for k, in := range insts {
				slots := f.Live()
				partial := in.M != nil && !in.M.Full
				if partial {
					slots = fr.tracked
				}
				now := takeSnapshot(in, everAdded, v.MaxPos(), probeSubsets(slots))
				// leaves first added after the snapshot are unknown to it: compare on its own probes
				if d := diffSnapshot(fr.snaps[k], now, !partial); d != "" {
					return res.failf("step %d: %s after apply+undo (depth %d) differs from before the block: %s", i, in.Cfg, depth, d)
				}
			}
			res.count("undos", 1)
			if depth >= 2 {
				res.count("undos_depth>=2", 1)
			}
			if fr.shape.deletes && fr.shape.adds && (fr.shape.emptiesTree || fr.shape.overwritesEmpty || fr.shape.crossesPow2) {
				res.NonTrivial = true
				res.count("nontrivial_undos", 1)
			}
			if fr.shape.overwritesEmpty {
				res.count("undo_of_block_overwriting_empty_root", 1)
			}
			if fr.shape.emptiesTree {
				res.count("undo_of_block_emptying_tree", 1)
			}
		case "restore":
			for k, in := range insts {
				var buf bytes.Buffer
				if _, err := serialize(in, &buf); err != nil {
					return res.failf("step %d: %s: writing the forest failed: %v", i, in.Cfg, err)
				}
				in2, _, err, perr := restore(in.Cfg, bytes.NewReader(buf.Bytes()))
				if perr != nil {
					err = perr
				}
				if err != nil {
					return res.failf("step %d: %s: restoring the forest from its own %d bytes failed: %v", i, in.Cfg, buf.Len(), err)
				}
				insts[k] = in2
			}
			if late != nil {
				var buf bytes.Buffer
				if _, err := serialize(late, &buf); err != nil {
					return res.failf("step %d: %s: writing the forest failed: %v", i, late.Cfg, err)
				}
				in2, _, err, perr := restore(late.Cfg, bytes.NewReader(buf.Bytes()))
				if perr != nil {
					err = perr
				}
				if err != nil {
					return res.failf("step %d: %s: restoring the forest from its own %d bytes failed: %v", i, late.Cfg, buf.Len(), err)
				}
				late = in2
				if err := lateCheck(fmt.Sprintf("after write+restore at step %d", i)); err != nil {
					return res.failf("%v", err)
				}
			}
			if err := checkAll(fmt.Sprintf("after write+restore at step %d", i)); err != nil {
				return res.failf("%v", err)
			}
			res.count("restores-between-block-and-undo", 1)
		default:
			return res.failf("case error: unknown op %q", st.Op)
		}
	}
	// replica: fresh instances that only ever see the surviving history
	var survivors []Block
	for _, fr := range stack {
		survivors = append(survivors, fr.b)
	}
	rl := newLockstep(c.Cfgs)
	for i, b := range survivors {
		if err := rl.step(i, b); err != nil {
			res.class("replica-setup-failed")
			return res
		}
	}
	v := f.View()
	for k, in := range insts {
		partial := in.M != nil && !in.M.Full
		slots := f.Live()
		if partial {
			// the replica tracks only what survived: remembered adds still live
			slots = nil
			n := 0
			for _, b := range survivors {
				for _, r := range b.Rem {
					if !f.Dead[n+r] {
						slots = append(slots, n+r)
					}
				}
				n += b.Add
			}
		}
		var probes []Hash
		if !partial {
			probes = everAdded
		} else {
			probes = f.HashesOf(slots)
		}
		a := takeSnapshot(in, probes, v.MaxPos(), probeSubsets(slots))
		b := takeSnapshot(rl.insts[k], probes, v.MaxPos(), probeSubsets(slots))
		if d := diffSnapshot(b, a, !partial); d != "" {
			return res.failf("%s: after the whole sequence the instance differs from a replica that never saw the undone blocks: %s", in.Cfg, d)
		}
	}
	res.count("steps", len(c.Steps))
	return res
}

func TestC06(t *testing.T) {
	runSpec(t, Spec[C06Case]{ID: "C06", Gen: genC06, Run: runC06, Pre: preScaleC06})
}

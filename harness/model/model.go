// Package model is the implementation-independent reference model of the utreexo
// accumulator used as the oracle by every check (DESIGN.md section 2).
//
// It imports the utreexo package only for the Hash type ([32]byte); it calls no
// function of it. Hashing is crypto/sha512 from the standard library.
package model

import (
	"crypto/sha256"
	"crypto/sha512"
	"encoding/binary"
	"sort"
	"sync/atomic"

	u "github.com/utreexo/utreexo"
)

// Hash is the 32-byte node hash.
type Hash = u.Hash

// Empty is the all-zero hash that stands for "nothing here".
var Empty Hash

// ParentHash is SHA-512/256(l || r).
func ParentHash(l, r Hash) Hash {
	h := sha512.New512_256()
	h.Write(l[:])
	h.Write(r[:])
	var o Hash
	copy(o[:], h.Sum(nil))
	return o
}

// LeafHash is the deterministic hash of the leaf inserted into slot i.
// Distinct, non-zero, distinct in the first 12 bytes with overwhelming probability.
//
// About one leaf in five carries a hash with a special byte pattern, chosen by the slot number alone
// (so a case stays a pure function of its slots): a library that tells "empty" by looking at part of
// a hash, keys or compares hashes by some of their bytes, or encodes them with a shortcut for
// particular byte values treats these leaves differently from their neighbours. Every pattern keeps
// the leaves distinct in their first 12 bytes (the slot number is written into bytes 8..11) and
// non-zero.
func LeafHash(i int) Hash {
	var b [12]byte
	copy(b[:4], "leaf")
	binary.LittleEndian.PutUint64(b[4:], uint64(i))
	h := sha256.Sum256(b[:])
	if i < 0 || uint64(i) >= 1<<32 {
		return h
	}
	if p := int(sparse.Load()); p > 0 && i == (p-1)%12 {
		// the one leaf of the case whose first 12 bytes are all zero (a second one would share its
		// 12-byte key in the pointer forest, which is outside every statement)
		s := h
		h = Hash{}
		switch (p - 1) / 12 {
		case 0:
			copy(h[16:24], s[16:24])
			h[16] |= 1
		case 1:
			copy(h[24:32], s[24:32])
			h[24] |= 1
		case 2:
			copy(h[12:16], s[12:16])
			h[12] |= 1
		case 3:
			h[31] = 1
		default:
			copy(h[12:], s[12:])
			h[20] |= 1
		}
		return h
	}
	tag := func() { binary.BigEndian.PutUint32(h[8:12], uint32(i)+1) }
	switch i % 16 {
	case 5: // eight leading zero bytes
		for k := 0; k < 8; k++ {
			h[k] = 0
		}
		tag()
	case 11: // twenty trailing zero bytes: equal to every other such leaf from byte 12 on
		for k := 12; k < 32; k++ {
			h[k] = 0
		}
		tag()
	case 14: // leading 0xff bytes, trailing 0xff bytes
		for k := 0; k < 8; k++ {
			h[k] = 0xff
		}
		for k := 24; k < 32; k++ {
			h[k] = 0xff
		}
		tag()
	case 6: // a single non-zero region: bytes 8..11 only (an even slot: the newest leaf of an odd-sized forest sits on a root)
		h = Hash{}
		tag()
	}
	return h
}

// sparse selects the case's one leaf whose hash is zero in its first 12 bytes; see SetSparse.
var sparse atomic.Int32

// SparseModes is the number of values SetSparse distinguishes besides 0.
const SparseModes = 60

// SetSparse chooses, for the cases that follow, which slot (one of the first twelve, main branch only)
// carries a hash that is all-zero outside one byte range beyond the 12-byte key: p = 0 none, otherwise
// slot (p-1) mod 12 and range (p-1) / 12 of {16..23, 24..31, 12..15, byte 31, 12..31}.
func SetSparse(p int) {
	if p < 0 || p > SparseModes {
		p = 0
	}
	sparse.Store(int32(p))
}

// FreshHash is a hash that is never a leaf nor (barring collisions) a node.
func FreshHash(i int) Hash {
	var b [13]byte
	copy(b[:5], "fresh")
	binary.LittleEndian.PutUint64(b[5:], uint64(i))
	return sha256.Sum256(b[:])
}

// Rows is the number of rows above row 0 needed for n leaves: ceil(log2 n).
func Rows(n uint64) uint8 {
	r := uint8(0)
	for r < 64 && (uint64(1)<<r) < n {
		r++
	}
	return r
}

// RowStart is the first position of row `row` in a forest laid out for R rows:
// 2^(R+1) - 2^(R+1-row), computed modulo 2^64 (exact for every valid input).
func RowStart(row, R uint8) uint64 {
	return pow2(uint(R)+1) - pow2(uint(R)+1-uint(row))
}

func pow2(e uint) uint64 {
	if e >= 64 {
		return 0 // 2^64 mod 2^64
	}
	return uint64(1) << e
}

// RowLen is the number of positions of row `row` for R rows.
func RowLen(row, R uint8) uint64 { return pow2(uint(R) - uint(row)) }

// Pos is the position of (row, offset) for R rows.
func Pos(row uint8, off uint64, R uint8) uint64 { return RowStart(row, R) + off }

// RowOff decodes a position into (row, offset). ok is false when the position
// is beyond the last position of the layout (the single position of row R).
func RowOff(pos uint64, R uint8) (row uint8, off uint64, ok bool) {
	for r := uint8(0); r <= R; r++ {
		st := RowStart(r, R)
		ln := RowLen(r, R)
		if pos >= st && pos-st < ln {
			return r, pos - st, true
		}
	}
	return 0, 0, false
}

// Translate converts a position between two layouts preserving (row, offset).
func Translate(pos uint64, from, to uint8) (uint64, bool) {
	r, o, ok := RowOff(pos, from)
	if !ok || r > to || o >= RowLen(r, to) {
		return 0, false
	}
	return Pos(r, o, to), true
}

// Forest is the abstract state: every leaf ever added, by insertion slot, and
// which of them have been deleted.
type Forest struct {
	Hashes []Hash
	Dead   []bool
}

func (f *Forest) N() uint64 { return uint64(len(f.Hashes)) }

func (f *Forest) Add(h Hash) int {
	f.Hashes = append(f.Hashes, h)
	f.Dead = append(f.Dead, false)
	return len(f.Hashes) - 1
}

func (f *Forest) Kill(slot int) { f.Dead[slot] = true }

func (f *Forest) Clone() *Forest {
	return &Forest{Hashes: append([]Hash(nil), f.Hashes...), Dead: append([]bool(nil), f.Dead...)}
}

// Truncate returns the forest as it was when it had n leaves, with the given dead set
// restored by the caller (used by undo).
func (f *Forest) Live() []int {
	var l []int
	for i, d := range f.Dead {
		if !d {
			l = append(l, i)
		}
	}
	return l
}

func (f *Forest) NumLive() int {
	c := 0
	for _, d := range f.Dead {
		if !d {
			c++
		}
	}
	return c
}

// Node is a node of the compressed forest.
type Node struct {
	Hash Hash
	L, R *Node
	Slot int // insertion slot for a leaf, -1 otherwise
	Pos  uint64
	Row  uint8
	Tree int
	Up   *Node // parent, nil for a tree root
}

func (n *Node) IsLeaf() bool { return n.Slot >= 0 }

// compress builds the compressed subtree over slots [s, s+2^h).
func (f *Forest) compress(s uint64, h uint8) *Node {
	if h == 0 {
		if f.Dead[s] {
			return nil
		}
		return &Node{Hash: f.Hashes[s], Slot: int(s)}
	}
	l := f.compress(s, h-1)
	r := f.compress(s+(uint64(1)<<(h-1)), h-1)
	if l == nil {
		return r
	}
	if r == nil {
		return l
	}
	return &Node{Hash: ParentHash(l.Hash, r.Hash), L: l, R: r, Slot: -1}
}

// TreeInfo describes one tree of the forest (one per 1-bit of N, highest first).
type TreeInfo struct {
	Height  uint8
	First   uint64 // first slot covered
	RootPos uint64
	Root    *Node // nil when no survivor
}

// View is everything observable about a state, in the layout for R rows.
type View struct {
	N       uint64
	R       uint8
	Trees   []TreeInfo
	Roots   []Hash
	RootPos []uint64
	At      map[uint64]Hash
	NodeAt  map[uint64]*Node
	LeafPos map[Hash]uint64
	SlotPos map[int]uint64
	IsRoot  map[uint64]bool
}

// View lays the state out in the external coordinates (R = Rows(N)).
func (f *Forest) View() *View { return f.ViewR(Rows(f.N())) }

// ViewR lays the state out for R >= Rows(N) rows (MapPollard's TotalRows coordinates).
func (f *Forest) ViewR(R uint8) *View {
	n := f.N()
	v := &View{N: n, R: R, At: map[uint64]Hash{}, NodeAt: map[uint64]*Node{}, LeafPos: map[Hash]uint64{},
		SlotPos: map[int]uint64{}, IsRoot: map[uint64]bool{}}
	s := uint64(0)
	for h := 63; h >= 0; h-- {
		if n&(uint64(1)<<uint(h)) == 0 {
			continue
		}
		hh := uint8(h)
		rp := Pos(hh, s>>hh, R)
		t := TreeInfo{Height: hh, First: s, RootPos: rp, Root: f.compress(s, hh)}
		v.IsRoot[rp] = true
		v.RootPos = append(v.RootPos, rp)
		if t.Root == nil {
			v.Roots = append(v.Roots, Empty)
		} else {
			v.Roots = append(v.Roots, t.Root.Hash)
			v.assign(t.Root, nil, rp, hh, len(v.Trees))
		}
		v.Trees = append(v.Trees, t)
		s += uint64(1) << hh
	}
	return v
}

// assign gives positions top-down: children of (row, k) are (row-1, 2k) and (row-1, 2k+1).
func (v *View) assign(n, up *Node, pos uint64, row uint8, tree int) {
	n.Pos, n.Row, n.Tree, n.Up = pos, row, tree, up
	v.At[pos] = n.Hash
	v.NodeAt[pos] = n
	if n.IsLeaf() {
		v.LeafPos[n.Hash] = pos
		v.SlotPos[n.Slot] = pos
		return
	}
	k := pos - RowStart(row, v.R)
	lp := Pos(row-1, 2*k, v.R)
	v.assign(n.L, n, lp, row-1, tree)
	v.assign(n.R, n, lp+1, row-1, tree)
}

// MaxPos is the largest position of the layout (the single position of row R).
func (v *View) MaxPos() uint64 { return Pos(v.R, 0, v.R) }

// PathSet returns every position on the paths from the given node positions to their roots.
func (v *View) PathSet(targets []uint64) map[uint64]bool {
	path := map[uint64]bool{}
	for _, p := range targets {
		n := v.NodeAt[p]
		for n != nil {
			path[n.Pos] = true
			n = n.Up
		}
	}
	return path
}

// ProofPositions is the canonical proof of the given target positions: the siblings of
// path nodes that are not themselves on a path, ascending. Also returns the computable
// positions (proper ancestors of targets), ascending.
func (v *View) ProofPositions(targets []uint64) (need, computable []uint64) {
	path := v.PathSet(targets)
	isTarget := map[uint64]bool{}
	for _, t := range targets {
		isTarget[t] = true
	}
	for p := range path {
		if !isTarget[p] {
			computable = append(computable, p)
		}
		if v.IsRoot[p] {
			continue
		}
		if !path[p^1] {
			need = append(need, p^1)
		}
	}
	sort.Slice(need, func(a, b int) bool { return need[a] < need[b] })
	sort.Slice(computable, func(a, b int) bool { return computable[a] < computable[b] })
	return
}

// Proof is the canonical proof for the given leaf hashes: targets in request order,
// proof hashes in ascending position order.
func (v *View) Proof(hashes []Hash) u.Proof {
	var p u.Proof
	p.Targets = make([]uint64, 0, len(hashes))
	for _, h := range hashes {
		p.Targets = append(p.Targets, v.LeafPos[h])
	}
	need, _ := v.ProofPositions(p.Targets)
	for _, pos := range need {
		p.Proof = append(p.Proof, v.At[pos])
	}
	return p
}

// ProofOfSlots is Proof for leaves given by slot.
func (f *Forest) HashesOf(slots []int) []Hash {
	out := make([]Hash, len(slots))
	for i, s := range slots {
		out[i] = f.Hashes[s]
	}
	return out
}

// TreesWith returns, ascending, the indexes (into Roots) of the trees containing the targets.
func (v *View) TreesWith(targets []uint64) []int {
	set := map[int]bool{}
	for _, t := range targets {
		if n := v.NodeAt[t]; n != nil {
			set[n.Tree] = true
		}
	}
	var out []int
	for i := range set {
		out = append(out, i)
	}
	sort.Ints(out)
	return out
}

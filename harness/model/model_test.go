package model

import (
	"reflect"
	"testing"

	"pgregory.net/rapid"
)

// The declarative model and the operational twin must agree on every state.
func TestModelAgreesWithTwin(t *testing.T) {
	rapid.Check(t, func(t *rapid.T) {
		f := &Forest{}
		tw := NewTwin()
		steps := rapid.IntRange(1, 40).Draw(t, "steps")
		for i := 0; i < steps; i++ {
			live := f.Live()
			if len(live) > 0 && rapid.IntRange(0, 2).Draw(t, "op") == 0 {
				k := rapid.IntRange(1, len(live)).Draw(t, "k")
				perm := rapid.Permutation(live).Draw(t, "perm")
				for _, s := range perm[:k] {
					f.Kill(s)
					tw.Delete(s)
				}
			} else {
				k := rapid.IntRange(1, 9).Draw(t, "adds")
				for j := 0; j < k; j++ {
					h := LeafHash(len(f.Hashes))
					f.Add(h)
					tw.Add(h)
				}
			}
			for _, R := range []uint8{Rows(f.N()), Rows(f.N()) + 2, 63} {
				v := f.ViewR(R)
				roots, at, slotPos := tw.Snapshot(R)
				if !reflect.DeepEqual(roots, v.Roots) && !(len(roots) == 0 && len(v.Roots) == 0) {
					t.Fatalf("roots differ N=%d R=%d", f.N(), R)
				}
				if !reflect.DeepEqual(at, v.At) {
					t.Fatalf("At differs N=%d R=%d", f.N(), R)
				}
				if !reflect.DeepEqual(slotPos, v.SlotPos) {
					t.Fatalf("SlotPos differs N=%d R=%d", f.N(), R)
				}
			}
		}
	})
}

// Hand-computed vectors from the repository's documentation (utils.go/stump.go comments).
func TestVectors(t *testing.T) {
	// 8 leaves: row starts 0, 8, 12, 14.
	for row, want := range []uint64{0, 8, 12, 14} {
		if g := RowStart(uint8(row), 3); g != want {
			t.Fatalf("RowStart(%d,3)=%d want %d", row, g, want)
		}
	}
	// stump.go: 5 leaves, slot 4 deleted, add one: the new leaf sits at 10 (row 1, offset 2).
	f := &Forest{}
	for i := 0; i < 5; i++ {
		f.Add(LeafHash(i))
	}
	f.Kill(4)
	f.Add(LeafHash(5))
	v := f.View()
	if v.SlotPos[5] != 10 || v.At[10] != LeafHash(5) {
		t.Fatalf("lifted leaf at %d", v.SlotPos[5])
	}
	if v.Roots[0] != ParentHash(ParentHash(LeafHash(0), LeafHash(1)), ParentHash(LeafHash(2), LeafHash(3))) {
		t.Fatalf("root 0")
	}
	// prove.go Proof doc: 4 leaves, targets [0,1] -> proof [5].
	g := &Forest{}
	for i := 0; i < 4; i++ {
		g.Add(LeafHash(i))
	}
	need, comp := g.View().ProofPositions([]uint64{0, 1})
	if !reflect.DeepEqual(need, []uint64{5}) || !reflect.DeepEqual(comp, []uint64{4, 6}) {
		t.Fatalf("proof positions %v %v", need, comp)
	}
	// R=63 layout.
	if RowStart(1, 63) != 1<<63 || RowStart(63, 63) != ^uint64(0)-1 {
		t.Fatalf("R=63 starts")
	}
}

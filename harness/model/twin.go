package model

// Twin is a second, operational implementation of the accumulator semantics used only to
// cross-check the declarative model (View): it keeps explicit pointer trees and performs
// additions and single deletions one at a time, the way the utreexo papers describe them:
//
//   add:    the new leaf is merged with the lowest roots as in binary addition; an empty
//           root is simply dropped (the new node takes its place one row up).
//   delete: a root becomes the empty root; any other node is removed and its sibling
//           takes the parent's place, then the ancestors are rehashed.
type Twin struct {
	roots []*tnode // highest tree first; a root with empty==true is an empty root
	n     uint64
	leaf  map[int]*tnode
}

type tnode struct {
	hash   Hash
	l, r   *tnode
	up     *tnode
	slot   int
	empty  bool
	height uint8 // only meaningful for roots: geometric height of the tree
}

func NewTwin() *Twin { return &Twin{leaf: map[int]*tnode{}} }

func (t *Twin) Add(h Hash) {
	node := &tnode{hash: h, slot: int(t.n)}
	t.leaf[int(t.n)] = node
	hgt := uint8(0)
	for ; (t.n>>hgt)&1 == 1; hgt++ {
		root := t.roots[len(t.roots)-1]
		t.roots = t.roots[:len(t.roots)-1]
		if root.empty {
			continue
		}
		p := &tnode{hash: ParentHash(root.hash, node.hash), l: root, r: node, slot: -1}
		root.up, node.up = p, p
		node = p
	}
	node.height = hgt
	t.roots = append(t.roots, node)
	t.n++
}

func (t *Twin) Delete(slot int) {
	node := t.leaf[slot]
	delete(t.leaf, slot)
	if node.up == nil {
		for i, r := range t.roots {
			if r == node {
				t.roots[i] = &tnode{empty: true, slot: -1, height: node.height}
			}
		}
		return
	}
	p := node.up
	sib := p.l
	if sib == node {
		sib = p.r
	}
	gp := p.up
	sib.up = gp
	if gp == nil {
		for i, r := range t.roots {
			if r == p {
				sib.height = p.height
				t.roots[i] = sib
			}
		}
		return
	}
	if gp.l == p {
		gp.l = sib
	} else {
		gp.r = sib
	}
	for a := gp; a != nil; a = a.up {
		a.hash = ParentHash(a.l.hash, a.r.hash)
	}
}

// Snapshot returns roots, the hash at every existing position and every live leaf's position,
// in the layout for R rows, computed from the pointer trees.
func (t *Twin) Snapshot(R uint8) (roots []Hash, at map[uint64]Hash, slotPos map[int]uint64) {
	at = map[uint64]Hash{}
	slotPos = map[int]uint64{}
	first := uint64(0)
	for _, r := range t.roots {
		rp := Pos(r.height, first>>r.height, R)
		first += uint64(1) << r.height
		if r.empty {
			roots = append(roots, Empty)
			continue
		}
		roots = append(roots, r.hash)
		var walk func(n *tnode, pos uint64, row uint8)
		walk = func(n *tnode, pos uint64, row uint8) {
			at[pos] = n.hash
			if n.l == nil {
				slotPos[n.slot] = pos
				return
			}
			k := pos - RowStart(row, R)
			walk(n.l, Pos(row-1, 2*k, R), row-1)
			walk(n.r, Pos(row-1, 2*k+1, R), row-1)
		}
		walk(r, rp, r.height)
	}
	return
}

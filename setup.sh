#!/bin/sh
# Builds the harness test binaries once (warms the Go build cache) from files on disk only.
set -e
cd "$(dirname "$0")/harness"
export GOFLAGS=-mod=mod GOPROXY=off GOSUMDB=off GOTOOLCHAIN=local
mkdir -p ../.build
go test -c -tags verif -o ../.build/props.test ./props
go test -c -tags verif -race -o ../.build/props.race.test ./props
go test -count=1 ./model
echo setup ok

import json,sys,glob
pid=sys.argv[1]
wt='/tmp/wt10-'+pid
out='/tmp/seed-out/'+pid+'r10'
base=open('/tmp/seed-out/prompt-%s.txt'%pid).read()
base=base.replace('/tmp/wt-'+pid, wt).replace('/tmp/seed-out/'+pid, out)
prev=[]
for d in sorted(glob.glob('/verif/seeded/*')):
    m=json.load(open(d+'/meta.json'))
    files=set()
    for l in open(d+'/patch.diff'):
        if l.startswith('+++ b/'): files.add(l[6:].strip())
    prev.append("- (%s) %s" % (", ".join(sorted(files)), m['needs_to_manifest'][:260]))
extra="""

ADDITIONAL CONSTRAINTS FOR THIS ROUND (round 10). Nine earlier rounds produced the seeded changes listed at the end (for all properties of this library). Do NOT reuse any of those mechanisms or close variants of them, and do NOT hide behind an arbitrary element-count threshold. The kind of change is your choice this round; what counts is that a careful human reviewer would plausibly approve the diff. Good places to look: two sites that cooperate (each edit harmless alone); an invariant that one function establishes and a distant one relies on; exported helpers that the library itself rarely calls; the interaction of two features (e.g. empty roots and row growth, undo and remembered leaves, translation between row layouts and deletion); a condition that is almost always true in the existing tests' histories (look at how the tests build their chains) but not in general; copy-paste asymmetries between the three implementations (Stump / Pollard / MapPollard) or between the 'add' and the 'undo add' code. Forests in your demonstration should involve at most ~100 real leaves and ~15 blocks. Never use `git stash` (the worktree shares its git directory with others); use `git diff > file` and `git checkout -- .`. HARD TIME LIMIT: finish within 22 minutes of wall-clock time; if after 14 minutes only one change survives the existing suite (run it at least twice: it has randomised tests), deliver that one alone and stop; do not run long mutation scans.

ALREADY USED (do not repeat):
""" + "\n".join(prev)
print(base+extra)

import json,sys,glob
pid=sys.argv[1]
wt='/tmp/wt10-'+pid
out='/tmp/seed-out/'+pid+'r10'
base=open('/tmp/seed-out/prompt-%s.txt'%pid).read()
base=base.replace('/tmp/wt-'+pid, wt).replace('/tmp/seed-out/'+pid, out)
prev=[]
for d in sorted(glob.glob('/verif/seeded/*')):
    m=json.load(open(d+'/meta.json'))
    files=set()
    for l in open(d+'/patch.diff'):
        if l.startswith('+++ b/'): files.add(l[6:].strip())
    prev.append("- (%s) %s" % (", ".join(sorted(files)), m['needs_to_manifest'][:260]))
extra="""

ADDITIONAL CONSTRAINTS FOR THIS ROUND (round 10). Nine earlier rounds produced the seeded changes listed at the end (for all properties of this library). Do NOT reuse any of those mechanisms or close variants of them, and do NOT hide behind an arbitrary element-count threshold. What counts is that a careful human reviewer would plausibly approve the diff. Two kinds of change are wanted this round - if you deliver two changes, make them one of each kind. KIND 1, DATA-VALUE DEPENDENCE: the change misbehaves only for particular VALUES that are legal but that tests never use - leaf hashes with a special byte pattern (leading or trailing zero bytes, 0xff bytes, a hash that compares lower/higher than its sibling, hashes equal in their last bytes), a hash compared or keyed by a part of its bytes, particular target positions / leaf counts / addition counts / remember indexes (exactly a power of two, exactly one below it, zero, the same value twice where that is legal), a particular TotalRows, particular byte values in a serialized stream. (The all-zero hash itself means 'empty' throughout the library and is NOT a legal leaf; 12-byte prefix collisions between leaves are also out of scope.) KIND 2, THREE-FEATURE INTERACTIONS: the change is only visible in a history that combines at least three different features in a particular order - e.g. a forest started from bare roots, then an undo, then a prune; serialize/restore between a block and its undo; row growth, then undo below the growth, then a remembered leaf spent; Verify(remember) of a leaf, then a block that moves it, then Ingest of the same leaf again; a cached proof updated, undone and updated on another branch. Look at how the existing tests build their chains and pick an order of features they never produce. Forests in your demonstration should involve at most ~100 real leaves and ~15 blocks. Never use `git stash` (the worktree shares its git directory with others); use `git diff > file` and `git checkout -- .`. HARD TIME LIMIT: finish within 22 minutes of wall-clock time; if after 14 minutes only one change survives the existing suite (run it at least twice: it has randomised tests), deliver that one alone and stop; do not run long mutation scans.

ALREADY USED (do not repeat):
""" + "\n".join(prev)
print(base+extra)

import json,sys,glob
pid=sys.argv[1]
wt='/tmp/wt4-'+pid
out='/tmp/seed-out/'+pid+'r4'
base=open('/tmp/seed-out/prompt-%s.txt'%pid).read()
base=base.replace('/tmp/wt-'+pid, wt).replace('/tmp/seed-out/'+pid, out)
prev=[]
for d in sorted(glob.glob('/verif/seeded/*')):
    m=json.load(open(d+'/meta.json'))
    files=set()
    for l in open(d+'/patch.diff'):
        if l.startswith('+++ b/'): files.add(l[6:].strip())
    prev.append("- (%s) %s" % (", ".join(sorted(files)), m['needs_to_manifest'][:260]))
extra="""

ADDITIONAL CONSTRAINTS FOR THIS ROUND (round 4). Three earlier rounds produced the 100 seeded changes listed at the end (for all properties of this library). Do NOT reuse any of those mechanisms or close variants of them. In particular, do NOT hide behind an arbitrary size threshold ("only above N elements"): this round wants bugs whose trigger is a particular COMBINATION or ORDER of ordinary-sized operations, a particular relation between two inputs, state left behind by an earlier call (including a FAILED or rejected call, a call with empty arguments, or a call repeated twice), a configuration the tests never use, an error path, a boundary of the forest shape (empty accumulator, exactly one leaf, all leaves deleted, a power of two, a tree that is emptied and refilled several times), or two cooperating sites. Forests in your demonstration should stay below ~100 leaves and ~15 blocks. Never use `git stash` (the worktree shares its git directory with others); use `git diff > file` and `git checkout -- .`.

ALREADY USED (do not repeat):
""" + "\n".join(prev)
print(base+extra)

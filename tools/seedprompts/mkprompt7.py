import json,sys,glob
pid=sys.argv[1]
wt='/tmp/wt7-'+pid
out='/tmp/seed-out/'+pid+'r7'
base=open('/tmp/seed-out/prompt-%s.txt'%pid).read()
base=base.replace('/tmp/wt-'+pid, wt).replace('/tmp/seed-out/'+pid, out)
prev=[]
for d in sorted(glob.glob('/verif/seeded/*')):
    m=json.load(open(d+'/meta.json'))
    files=set()
    for l in open(d+'/patch.diff'):
        if l.startswith('+++ b/'): files.add(l[6:].strip())
    prev.append("- (%s) %s" % (", ".join(sorted(files)), m['needs_to_manifest'][:260]))
extra="""

ADDITIONAL CONSTRAINTS FOR THIS ROUND (round 7). Six earlier rounds produced the seeded changes listed at the end (for all properties of this library). Do NOT reuse any of those mechanisms or close variants of them, and do NOT hide behind an arbitrary element-count threshold. This round wants bugs of two kinds - produce change A of the first kind and change B of the second kind if you can:
 (1) ERROR PATHS AND FAILURE ATOMICITY: an error that is swallowed, replaced by success, or returned too late; a call that returns an error after it has already changed part of the object (so that the NEXT honest call misbehaves); clean-up that runs on the success path only; a validation moved after a side effect; a loop that stops at the first error and leaves the rest unprocessed; a retry of the same honest call after a refused one.
 (2) INPUT SHAPES THAT ARE VALID BUT UNUSUAL: targets / hashes given in a non-sorted or reversed (but parallel) order; the same logical request expressed two ways; empty versus nil versus single-element inputs; zero-value structs (a Stump{} or Proof{} never touched, an accumulator before its first block); a block that only adds, only deletes, or does nothing; all leaves of one tree; exactly the last leaf; requests naming every live leaf.
Forests in your demonstration should involve at most ~100 leaves and ~15 blocks. Never use `git stash` (the worktree shares its git directory with others); use `git diff > file` and `git checkout -- .`. HARD TIME LIMIT: finish within 35 minutes of wall-clock time; if after 25 minutes only one change survives the existing suite (run it at least twice: it has randomised tests), deliver that one alone and stop; do not run long mutation scans.

ALREADY USED (do not repeat):
""" + "\n".join(prev)
print(base+extra)

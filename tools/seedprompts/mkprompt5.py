import json,sys,glob
pid=sys.argv[1]
wt='/tmp/wt5-'+pid
out='/tmp/seed-out/'+pid+'r5'
base=open('/tmp/seed-out/prompt-%s.txt'%pid).read()
base=base.replace('/tmp/wt-'+pid, wt).replace('/tmp/seed-out/'+pid, out)
prev=[]
for d in sorted(glob.glob('/verif/seeded/*')):
    m=json.load(open(d+'/meta.json'))
    files=set()
    for l in open(d+'/patch.diff'):
        if l.startswith('+++ b/'): files.add(l[6:].strip())
    prev.append("- (%s) %s" % (", ".join(sorted(files)), m['needs_to_manifest'][:260]))
extra="""

ADDITIONAL CONSTRAINTS FOR THIS ROUND (round 5). Four earlier rounds produced the seeded changes listed at the end (for all properties of this library). Do NOT reuse any of those mechanisms or close variants of them, and do NOT hide behind an arbitrary size threshold. This round wants bugs that only show under an API USAGE PATTERN which the library supports (see its doc comments and how utreexod-style callers would use it) but which its tests never exercise, for example: the same object asked the same or a related question twice in a row; a long-lived object used across many blocks versus a fresh one; two different entry points that should lead to the same state or answer (e.g. Verify(remember) vs VerifyPartialProof(remember) vs Ingest; Modify on a forest built from scratch vs restored from bytes vs started from bare roots; Prove vs GetProofSubset of a bigger proof vs AddProof of two smaller ones); a result of one exported call fed into another exported call; arguments that alias each other or a previous result; a call made right after an undo, a prune, a refused call or a restore; options/configurations (Full vs partial, TotalRows values, remember flags) in combinations the tests skip; internal caches, scratch buffers or memoised values introduced by the change that go stale. Forests in your demonstration should stay below ~100 leaves and ~15 blocks. Never use `git stash` (the worktree shares its git directory with others); use `git diff > file` and `git checkout -- .`.

ALREADY USED (do not repeat):
""" + "\n".join(prev)
print(base+extra)

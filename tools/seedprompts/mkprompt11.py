import json,sys,glob
pid=sys.argv[1]
wt='/tmp/wt11-'+pid
out='/tmp/seed-out/'+pid+'r11'
base=open('/tmp/seed-out/prompt-%s.txt'%pid).read()
base=base.replace('/tmp/wt-'+pid, wt).replace('/tmp/seed-out/'+pid, out)
prev=[]
for d in sorted(glob.glob('/verif/seeded/*')):
    m=json.load(open(d+'/meta.json'))
    files=set()
    for l in open(d+'/patch.diff'):
        if l.startswith('+++ b/'): files.add(l[6:].strip())
    prev.append("- (%s) %s" % (", ".join(sorted(files)), m['needs_to_manifest'][:260]))
extra="""

ADDITIONAL CONSTRAINTS FOR THIS ROUND (round 11). Ten earlier rounds produced the seeded changes listed at the end (for all properties of this library). Do NOT reuse any of those mechanisms or close variants of them, and do NOT hide behind an arbitrary element-count threshold. ONE change is enough this round (deliver it as change A; a second one is welcome but optional). Wanted: a change that is only visible in a history that puts an operation AFTER one of the rarely combined life-cycle events of a forest - after the forest was restored from bytes (MapPollard.Read / RestorePollardFrom), after it was created from bare roots (NewMapPollardFromRoots, full or partial), after a Prune, after a refused call, after an Undo that went back several blocks - and where the operation that follows is NOT the obvious one (e.g. not just 'Modify after restore'): Undo after restore, Prune after restore, Verify(remember) / Ingest / GetMissingPositions+VerifyPartialProof after an undo, a second restore after further blocks, Undo of a block that was applied before the forest was created from roots, Prove / GetLeafPosition after any of these. Earlier agents reported that the existing suite never restores before an undo, never prunes before an undo, never undoes on a forest created from roots, and exercises a FULL MapPollard only for single blocks; look there. A careful human reviewer should plausibly approve the diff (a tidy-up, a guard mirrored from a sibling function, an invariant that holds for forests built by Modify but not for forests built by a constructor or by Read). Forests in your demonstration should involve at most ~60 real leaves and ~12 blocks. Never use `git stash` (the worktree shares its git directory with others); use `git diff > file` and `git checkout -- .`. HARD TIME LIMIT: finish within 18 minutes of wall-clock time; run the existing suite at least twice with your change (it has randomised tests); do not run long mutation scans.

ALREADY USED (do not repeat):
""" + "\n".join(prev)
print(base+extra)

import json,sys,glob
pid=sys.argv[1]
wt='/tmp/wt6-'+pid
out='/tmp/seed-out/'+pid+'r6'
base=open('/tmp/seed-out/prompt-%s.txt'%pid).read()
base=base.replace('/tmp/wt-'+pid, wt).replace('/tmp/seed-out/'+pid, out)
prev=[]
for d in sorted(glob.glob('/verif/seeded/*')):
    m=json.load(open(d+'/meta.json'))
    files=set()
    for l in open(d+'/patch.diff'):
        if l.startswith('+++ b/'): files.add(l[6:].strip())
    prev.append("- (%s) %s" % (", ".join(sorted(files)), m['needs_to_manifest'][:260]))
extra="""

ADDITIONAL CONSTRAINTS FOR THIS ROUND (round 6). Five earlier rounds produced the seeded changes listed at the end (for all properties of this library). Do NOT reuse any of those mechanisms or close variants of them, and do NOT hide behind an arbitrary element-count threshold. This round wants bugs of two kinds - produce change A of the first kind and change B of the second kind if you can:
 (1) ARITHMETIC AND REPRESENTATION: integer width and signedness (uint8 row counters at 62/63/64 rows, shifts by 64 or more, int vs uint64 conversions, uint32/uint16 truncation of positions or indexes, subtraction underflow at 0, off-by-one at the last position of a row or the top row), accumulators with a very large NumLeaves (2^40 .. 2^63, reachable cheaply through a Stump with hand-made roots, NewMapPollardFromRoots, or TotalRows/CSTTotalRows = 63 coordinates) where only a handful of real hashes are involved, positions near 2^64, translation between row layouts, byte-level encoding details (endianness, field order, flag bytes) that only matter for particular values.
 (2) A PLAUSIBLE PERFORMANCE REFACTOR that is subtly wrong: batching, early exits, pre-sized or pooled buffers (sync.Pool, reuse of a scratch slice kept in a struct field or package variable), lazily computed fields, replacing a sort by a merge that assumes sortedness, replacing a map by a slice index, iterating in a different order, work split over goroutines inside one call, skipping "unnecessary" copies or re-hashing.
Forests in your demonstration should involve at most ~100 real leaves and ~15 blocks. Never use `git stash` (the worktree shares its git directory with others); use `git diff > file` and `git checkout -- .`. HARD TIME LIMIT: finish within 35 minutes of wall-clock time; if after 25 minutes only one change survives the existing suite, deliver that one alone and stop; do not run long mutation scans.

ALREADY USED (do not repeat):
""" + "\n".join(prev)
print(base+extra)

#!/usr/bin/env python3
"""usage: tools/keep_seed.py <src-dir> <seed-id> <property> <detected: yes|no|partly> <check output line> -- <what it needs to manifest>
Copies a validated seeded change (patch.diff, demo_test.go, README.md) into /verif/seeded/<seed-id>/ and writes meta.json."""
import json, os, shutil, sys
src, sid, prop, det, line = sys.argv[1:6]
needs = " ".join(sys.argv[7:]) if len(sys.argv) > 7 else ""
d = os.path.join(os.path.dirname(os.path.dirname(os.path.abspath(__file__))), "seeded", sid)
os.makedirs(d, exist_ok=True)
for f in ("patch.diff", "demo_test.go", "README.md"):
    if os.path.exists(os.path.join(src, f)):
        shutil.copy(os.path.join(src, f), os.path.join(d, f))
meta = {
    "id": sid, "breaks_property": prop, "origin": "independent sub-agent given only the property text and a scratch worktree",
    "needs_to_manifest": needs,
    "validated": "tools/validate_seed.sh: patch applies to /repo HEAD and builds; repository suite (go test -vet=off -count=1 ./...) passes with it; demo_test.go fails with it and passes without it",
    "ran": "tools/with_patch.sh seeded/%s/patch.diff ./check %s --tier quick --no-evidence" % (sid, prop),
    "detected_by_quick_check": det, "check_output": line,
}
json.dump(meta, open(os.path.join(d, "meta.json"), "w"), indent=1)
print("kept", d)

#!/usr/bin/env python3
"""Regenerates the table of seeded changes in DESIGN.md (between the SEEDS markers) from seeded/*/meta.json."""
import glob, json, os, re
root = os.path.dirname(os.path.dirname(os.path.abspath(__file__)))
rows = ["| seed | breaks | files | what it needs in order to manifest | quick check | what the check printed |", "|---|---|---|---|---|---|"]
for d in sorted(glob.glob(os.path.join(root, "seeded", "*"))):
    m = json.load(open(os.path.join(d, "meta.json")))
    files = sorted({l[6:].strip() for l in open(os.path.join(d, "patch.diff")) if l.startswith("+++ b/")})
    rows.append("| %s | %s | %s | %s | %s | %s |" % (m["id"], m["breaks_property"], ", ".join(files), m["needs_to_manifest"].replace("|", "/"),
                                                  m["detected_by_quick_check"], m["check_output"].replace("|", "/")[:260]))
p = os.path.join(root, "DESIGN.md")
s = open(p).read()
a, b = s.index("<!-- SEEDS:BEGIN -->"), s.index("<!-- SEEDS:END -->")
s = s[:a] + "<!-- SEEDS:BEGIN -->\n" + "\n".join(rows) + "\n" + s[b:]
open(p, "w").write(s)
print(len(rows) - 2, "seeds listed")

#!/bin/sh
# usage: tools/validate_seed.sh <seed-dir containing patch.diff and demo_test.go> [demo test name regexp]
# Confirms, in a throw-away worktree of /repo HEAD under /tmp, that the seeded change (1) applies and
# compiles, (2) passes the repository's own suite, (3) makes the demonstration fail, and (4) that the
# demonstration passes without the change. Removes the worktree afterwards.
set -u
D="$(cd "$1" && pwd)"; RUN="${2:-TestSeedDemo}"
export GOFLAGS=-mod=mod GOPROXY=off GOSUMDB=off GOTOOLCHAIN=local
WT=/tmp/val-$$
git -C /repo worktree add -q --detach $WT HEAD || exit 2
trap 'git -C /repo worktree remove --force '$WT' >/dev/null 2>&1' EXIT
cd $WT
cp "$D/demo_test.go" seed_demo_test.go
go test ${SEED_TESTFLAGS:-} -vet=off -count=1 -run "$RUN" . >/tmp/val-$$.clean.log 2>&1; c0=$?
git apply "$D/patch.diff" || { echo "RESULT apply=FAIL"; exit 1; }
go build ./... || { echo "RESULT build=FAIL"; exit 1; }
go test ${SEED_TESTFLAGS:-} -vet=off -count=1 -run "$RUN" . >/tmp/val-$$.mut.log 2>&1; c1=$?
rm seed_demo_test.go
go test -vet=off -count=1 ./... >/tmp/val-$$.suite.log 2>&1; c2=$?
echo "RESULT demo_clean_exit=$c0 (want 0) demo_mutated_exit=$c1 (want !=0) suite_mutated_exit=$c2 (want 0)"
[ $c1 -ne 0 ] && grep -E "^\s+seed_demo|^--- FAIL|panic:" /tmp/val-$$.mut.log | head -5
[ $c0 -ne 0 ] && tail -5 /tmp/val-$$.clean.log
[ $c2 -ne 0 ] && tail -5 /tmp/val-$$.suite.log
rm -f /tmp/val-$$.*.log
[ $c0 -eq 0 ] && [ $c1 -ne 0 ] && [ $c2 -eq 0 ]

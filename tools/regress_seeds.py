#!/usr/bin/env python3
"""Re-run the quick check of its property against every kept seed that the table says that check detects,
and report the ones that are no longer detected. usage: tools/regress_seeds.py [jobs] [only-prefix]"""
import concurrent.futures as cf, glob, json, os, subprocess, sys
ROOT = os.path.dirname(os.path.dirname(os.path.abspath(__file__)))
jobs = int(sys.argv[1]) if len(sys.argv) > 1 else 3
only = sys.argv[2] if len(sys.argv) > 2 else ""
ENV = dict(os.environ, GOFLAGS="-mod=mod", GOPROXY="off", GOSUMDB="off", GOTOOLCHAIN="local")

def one(d):
    m = json.load(open(os.path.join(d, "meta.json")))
    if not m["detected_by_quick_check"].startswith("yes"):
        return m["id"], "skipped (" + m["detected_by_quick_check"][:40] + ")"
    p = subprocess.run([os.path.join(ROOT, "tools", "with_patch.sh"), os.path.join(d, "patch.diff"), "./check", m["breaks_property"], "--tier", "quick", "--no-evidence"],
                       cwd=ROOT, env=ENV, stdout=subprocess.PIPE, stderr=subprocess.STDOUT, text=True)
    if "VIOLATION" in p.stdout:
        return m["id"], "detected"
    return m["id"], "NOT DETECTED (exit %d) %s" % (p.returncode, p.stdout.strip().splitlines()[-1][:200] if p.stdout.strip() else "")

ds = [d for d in sorted(glob.glob(os.path.join(ROOT, "seeded", "*"))) if os.path.basename(d).startswith(only)]
with cf.ThreadPoolExecutor(jobs) as ex:
    for sid, r in ex.map(one, ds):
        print(sid, r, flush=True)

#!/usr/bin/env python3
"""Mutation sweep: which simple edits of /repo survive the repository's own suite, and do the
checks catch those survivors?

phase 1 (--phase suite): sample N single-token / single-statement mutants of the non-test sources,
  build each in a scratch worktree under /tmp, run the repository suite; survivors are saved as
  mutants/sweep/<id>.patch and listed in mutants/sweep/survivors.json.
phase 2 (--phase checks): run the quick checks (VERIF_REPO = patched worktree, --no-evidence) against
  every survivor until one reports a violation; results go to mutants/sweep/results.json and
  mutants/SWEEP.md.

/repo itself is never modified. Deterministic for a given --seed.
"""
import argparse, concurrent.futures as cf, hashlib, json, os, random, re, shutil, subprocess, sys, time

ROOT = os.path.dirname(os.path.dirname(os.path.abspath(__file__)))
OUT = os.path.join(ROOT, "mutants", "sweep")
FILES = ["stump.go", "pollard.go", "polnode.go", "mappollard.go", "prove.go", "utils.go"]
ENV = dict(os.environ, GOFLAGS="-mod=mod", GOPROXY="off", GOSUMDB="off", GOTOOLCHAIN="local")
SKIP_FUNCS = re.compile(r"String|ToString|Sprint|String\(\)")
ORDER = ["C01", "C02", "C16", "C11", "C07", "C14", "C10", "C09", "C06", "C05", "C08", "C17", "C13", "C04", "C03", "C15", "C12"]

REL = [(" < ", " <= "), (" <= ", " < "), (" > ", " >= "), (" >= ", " > "), (" == ", " != "), (" != ", " == "),
       (" && ", " || "), (" || ", " && "), (" + 1", ""), (" - 1", ""), ("+1", ""), ("-1", ""), (" + ", " - "), (" - ", " + "),
       ("true", "false"), ("false", "true"), ("i++", "i += 2"), ("continue", "break"), ("break", "continue"),
       ("<<", ">>"), (">>", "<<"), (" | ", " & "), (" ^ 1", ""), ("len(", "1+len(")]


def candidates():
    out = []
    for fn in FILES:
        lines = open(os.path.join("/repo", fn)).read().split("\n")
        func = None
        depth = 0
        for i, l in enumerate(lines):
            st = l.strip()
            m = re.match(r"func (\([^)]*\) )?(\w+)", l)
            if m and depth == 0:
                func = m.group(2)
            depth += l.count("{") - l.count("}")
            if func is None or depth == 0 or st.startswith("//") or not st:
                continue
            if SKIP_FUNCS.search(func) or "fmt." in l or "Errorf" in l or "verifPoint" in l or "verifTick" in l or '"' in l:
                continue
            code = l.split("//")[0]
            for a, b in REL:
                for mm in re.finditer(re.escape(a), code):
                    out.append({"file": fn, "line": i, "func": func, "kind": "%r->%r" % (a.strip(), b.strip()), "col": mm.start(), "old": a, "new": b})
            # statement deletion: a simple call or assignment statement on its own line
            if re.match(r"^[\w\.\[\]\(\)]+(\.[\w]+)*\(.*\)$", st) or re.match(r"^[\w\.\[\]]+ (=|\+=|-=) .+$", st) or st in ("numLeaves++", "m.NumLeaves++", "p.NumLeaves++", "p.NumDels++", "p.NumDels--"):
                if not st.startswith("return") and not st.endswith("{"):
                    out.append({"file": fn, "line": i, "func": func, "kind": "delete-statement", "col": -1, "old": st, "new": ""})
    return out


def apply_mut(wt, m):
    p = os.path.join(wt, m["file"])
    lines = open(p).read().split("\n")
    l = lines[m["line"]]
    if m["col"] < 0:
        ind = l[:len(l) - len(l.lstrip())]
        lines[m["line"]] = ind + "// (deleted)"
        # keep the code compiling when the statement declared nothing: plain deletion
    else:
        lines[m["line"]] = l[:m["col"]] + m["new"] + l[m["col"] + len(m["old"]):]
    open(p, "w").write("\n".join(lines))


def mid(m):
    return hashlib.sha256(json.dumps(m, sort_keys=True).encode()).hexdigest()[:10]


def suite_one(m):
    k = mid(m)
    wt = "/tmp/ms-" + k
    subprocess.run(["git", "-C", "/repo", "worktree", "add", "-q", "--detach", wt, "HEAD"], check=True)
    try:
        apply_mut(wt, m)
        b = subprocess.run(["go", "build", "./..."], cwd=wt, env=ENV, stdout=subprocess.PIPE, stderr=subprocess.STDOUT, text=True)
        if b.returncode != 0:
            return k, "nobuild", None
        v = subprocess.run(["go", "vet", "-tags", "verif", "."], cwd=wt, env=ENV, stdout=subprocess.PIPE, stderr=subprocess.STDOUT, text=True)
        try:
            t = subprocess.run(["go", "test", "-vet=off", "-count=1", "-timeout", "240s", "./..."], cwd=wt, env=ENV, stdout=subprocess.PIPE,
                               stderr=subprocess.STDOUT, text=True, timeout=300)
            rc = t.returncode
        except subprocess.TimeoutExpired:
            rc = -9
        if rc != 0:
            return k, "killed-by-suite", None
        d = subprocess.run(["git", "-C", wt, "diff"], stdout=subprocess.PIPE, text=True).stdout
        return k, "survived", d
    finally:
        subprocess.run(["git", "-C", "/repo", "worktree", "remove", "--force", wt], stdout=subprocess.DEVNULL, stderr=subprocess.DEVNULL)


def checks_one(entry):
    k = entry["id"]
    patch = os.path.join(OUT, k + ".patch")
    t0 = time.time()
    for pid in ORDER:
        sys.path.insert(0, ROOT)
        from checks_table import CHECKS
        budget = max(40, CHECKS[pid]["quick"]["checks"] // 4)  # a quarter of the quick budget: this sweep is a screen, not the check
        p = subprocess.run([os.path.join(ROOT, "tools", "with_patch.sh"), patch, "./check", pid, "--tier", "quick", "--no-evidence", "--checks", str(budget)],
                           cwd=ROOT, env=ENV, stdout=subprocess.PIPE, stderr=subprocess.STDOUT, text=True)
        lines = [l for l in p.stdout.splitlines() if not l.startswith("WARNING conda")]
        if any(l.startswith("VIOLATION") for l in lines):
            msg = next((l.strip() for l in lines if l.startswith("  ")), "")
            return k, {"detected_by": pid, "message": msg[:300], "wall_s": round(time.time() - t0)}
        if p.returncode == 2:
            return k, {"detected_by": None, "infra": pid, "tail": "\n".join(lines[-5:])[:600], "wall_s": round(time.time() - t0)}
    return k, {"detected_by": None, "wall_s": round(time.time() - t0)}


def main():
    ap = argparse.ArgumentParser()
    ap.add_argument("--phase", choices=["suite", "checks", "report"], required=True)
    ap.add_argument("--n", type=int, default=300)
    ap.add_argument("--seed", type=int, default=1)
    ap.add_argument("--jobs", type=int, default=4)
    a = ap.parse_args()
    os.makedirs(OUT, exist_ok=True)
    sfile = os.path.join(OUT, "survivors.json")
    rfile = os.path.join(OUT, "results.json")
    if a.phase == "suite":
        cands = candidates()
        random.Random(a.seed).shuffle(cands)
        cands = cands[:a.n]
        stats = {"candidates_total": len(candidates()), "sampled": len(cands), "nobuild": 0, "killed-by-suite": 0, "survived": 0}
        surv = json.load(open(sfile)) if os.path.exists(sfile) else []
        known = {e["id"] for e in surv}
        with cf.ThreadPoolExecutor(a.jobs) as ex:
            for (k, status, diff), m in zip(ex.map(suite_one, cands), cands):
                stats[status] += 1
                if status == "survived" and k not in known:
                    open(os.path.join(OUT, k + ".patch"), "w").write(diff)
                    surv.append(dict(m, id=k))
                    json.dump(surv, open(sfile, "w"), indent=1)
                print(k, status, m["file"], m["func"], m["kind"], flush=True)
        json.dump(stats, open(os.path.join(OUT, "suite_stats.%d.json" % a.seed), "w"), indent=1)
        print(stats)
    elif a.phase == "checks":
        surv = json.load(open(sfile))
        res = json.load(open(rfile)) if os.path.exists(rfile) else {}
        # capacity hints (make(..., len(x)) -> make(..., 1+len(x))) and print helpers cannot change behaviour
        for e in surv:
            if e["id"] in res:
                continue
            line = open(os.path.join("/repo", e["file"])).read().split("\n")[e["line"]]
            if (e["kind"].startswith("'len('") and "make(" in line) or e["func"].startswith("print"):
                res[e["id"]] = {"detected_by": None, "equivalent": "capacity hint / print helper", "wall_s": 0}
                continue
            # functions nothing outside the tests calls
            uses = 0
            for fn in FILES:
                src = open(os.path.join("/repo", fn)).read()
                uses += len(re.findall(r"[^\w]" + re.escape(e["func"]) + r"[\(\[]", src))
            if uses <= 1:
                res[e["id"]] = {"detected_by": None, "equivalent": "function not called by any non-test code", "wall_s": 0}
        todo = [e for e in surv if e["id"] not in res]
        with cf.ThreadPoolExecutor(a.jobs) as ex:
            for k, r in ex.map(checks_one, todo):
                res[k] = r
                json.dump(res, open(rfile, "w"), indent=1)
                print(k, r.get("detected_by"), r.get("message", "")[:120], flush=True)
    if a.phase in ("checks", "report"):
        surv = json.load(open(sfile))
        res = json.load(open(rfile)) if os.path.exists(rfile) else {}
        notes = {}
        np = os.path.join(OUT, "notes.json")
        if os.path.exists(np):
            notes = json.load(open(np))
        rows = ["| mutant | file | function | edit | detected by | message / manual classification of undetected ones |", "|---|---|---|---|---|---|"]
        det = 0
        for e in surv:
            r = res.get(e["id"])
            if not r:
                continue
            det += 1 if r.get("detected_by") else 0
            rows.append("| %s | %s:%d | %s | %s | %s | %s |" % (e["id"], e["file"], e["line"] + 1, e["func"], (e["kind"] + (" `%s`" % e["old"] if e["col"] < 0 else "")).replace("|", "/"),
                                                            r.get("detected_by") or ("INFRA " + r.get("infra", "") if r.get("infra") else ("equivalent: " + r["equivalent"] if r.get("equivalent") else "**none**")), (r.get("message", "") or notes.get(e["id"], "")).replace("|", "/")[:200]))
        open(os.path.join(ROOT, "mutants", "SWEEP.md"), "w").write(
            "# Mutation sweep: suite-surviving mutants vs the quick checks\n\nGenerated by tools/mutsweep.py (phase 2 runs every quick check with a QUARTER of its case budget, in the order C01 C02 C16 C11 C07 C14 C10 C09 C06 C05 C08 C17 C13 C04 C03 C15 C12, until one reports a violation). %d survivors judged, %d detected; the rest are listed as none (inspected: dead branches, pointer clean-up, capacity hints and other equivalent mutants unless noted in DESIGN.md).\n\n" % (len(rows) - 2, det) + "\n".join(rows) + "\n")
        print("judged", len(rows) - 2, "detected", det)


if __name__ == "__main__":
    main()

#!/bin/sh
# usage: tools/with_patch.sh <patch.diff> <command...>
# Applies the patch to /repo's working tree, runs the command from /verif, and always undoes the
# patch afterwards (git apply -R). Used for sensitivity runs against seeded changes; never commits.
set -u
P="$(cd "$(dirname "$1")" && pwd)/$(basename "$1")"; shift
cd "$(dirname "$0")/.."
if ! git -C /repo diff --quiet; then echo "with_patch: /repo working tree is dirty, refusing" >&2; exit 2; fi
git -C /repo apply "$P" || { echo "with_patch: patch does not apply" >&2; exit 2; }
"$@"
rc=$?
git -C /repo apply -R "$P" || { echo "with_patch: could not undo the patch; run git -C /repo checkout -- ." >&2; }
git -C /repo diff --quiet || echo "with_patch: WARNING /repo is still dirty" >&2
exit $rc

#!/bin/sh
# usage: tools/with_patch.sh <patch.diff> <command...>
# Runs the command (from /verif) against a throw-away worktree of /repo HEAD with the patch
# applied: the worktree is created under /tmp, exported as VERIF_REPO (which ./check honours),
# and removed afterwards. /repo itself is never touched, so this can run while other checks use it.
set -u
P="$(cd "$(dirname "$1")" && pwd)/$(basename "$1")"; shift
cd "$(dirname "$0")/.."
WT=/tmp/mut-$$
git -C /repo worktree add -q --detach $WT HEAD || exit 2
trap 'git -C /repo worktree remove --force '$WT' >/dev/null 2>&1; rm -f .build/*'"$(printf %s $WT | sha256sum | cut -c1-8)"'*' EXIT
git -C $WT apply "$P" || { echo "with_patch: patch does not apply" >&2; exit 2; }
VERIF_REPO=$WT "$@"

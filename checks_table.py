# Per-property configuration of the driver: which Go test decides it, how many rapid cases
# per shard and how many shard processes per tier, the stated non-trivial rule, assumptions.

COMMON_ASSUME = [
    "reference model of DESIGN.md section 2 (cross-checked against an operational twin in harness/model)",
    "SHA-256 / SHA-512/256 from the Go standard library; no hash collisions among generated leaves (distinct in their first 12 bytes)",
    "leaf hashes: sha256 values, except that a quarter of the slots carry a byte pattern (8 leading zero bytes; zero outside bytes 8..11; 20 trailing zero bytes; 0xff runs) and one case in three has ONE sparse leaf whose first 12 bytes are zero (non-zero only in bytes 16..23 / 24..31 / 12..15 / byte 31 / 12..31); byte patterns outside these are not generated",
    "pgregory.net/rapid v1.3.0 generators; every random choice is a rapid draw seeded from VERIF_SEED",
    "slices returned by Prove, GetRoots and GetLeafHashPositions are, once judged, overwritten by the harness and kept: after later calls they must read as the harness left them",
    "a quarter of the generated map forests run on caller-supplied stores (harness implementations of NodesInterface / CachedLeavesInterface with plain map semantics and descending ForEach order)",
]

CHECKS = {
    "C01": {
        "test": "TestC01",
        "quick": {"shards": 8, "checks": 7000},
        "thorough": {"shards": 16, "checks": 3000},
        "rule": "rapid-generated block histories from the empty accumulator (deletion modes none/all/whole trees/sibling pairs/lone root/climbed/"
                "all-but-one/one/p=1/8,1/2,7/8; addition modes 0,1,2,3,to 2^k-1,to 2^k,past 2^k,random) applied in lock-step to Stump, Pollard and 2-3 "
                "MapPollard configurations (full and partial, TotalRows from {0..6,8,16,31,32,33,62,63} or uniform 0..63; half of the partial ones 'direct': Modify without a preceding Verify(remember) when every deleted leaf is already cached; before a third of the blocks a partial forest is asked to Prune a drawn subset of what it remembers; before a fifth of the blocks every map forest is handed a block it must REFUSE - 1-3 live leaves followed by a hash that is no leaf - and must stay as it was; before a third of the blocks every forest is asked to REMEMBER 1-4 live leaves (the newest one preferred) through Verify(remember), a partial forest alternatively through Ingest or GetMissingPositions+VerifyPartialProof(remember); before a fifth of the blocks every forest applies a STALE TIP (an additions-only block of another branch, every leaf remembered) and undoes it again; the argument slices of successive calls of an instance are regions of the same recycled buffers; in a third of the cases a full or partial map forest JOINS LATE from the bare roots of a drawn block (NewMapPollardFromRoots), learns each block's spent leaves through Verify(remember) and must agree on the roots from then on) and compared with the "
                "reference model after every block, plus the same survivors re-batched (one-shot / split / re-cut). Non-trivial: some block deletes and "
                "some block adds and at least one of: a whole tree emptied, an empty root overwritten by additions, TreeRows changes, a leaf at row>=2. "
                "Distinct by SHA-256 of the case JSON. Sizes: forests up to 96 leaves / 14 blocks, 1 case in 40 up to 640 leaves / 26 blocks / 300 additions per block (thorough: 1100 / 40 / 200, 1 in 8 up to 2600 / 48 / 700, 1 in 48 up to 12000 leaves with blocks of thousands). Before the generated search, deterministic scale probes: a hand-shaped history on 2^9, 2^12 and 2^13 leaves (thorough up to 2^15) with leaves climbing two rows, a half emptied with n/2 targets, climbed leaves deleted together with row-0 twins of the same block, and a power-of-two crossing, on 2 map configurations each.",
        "assumptions": COMMON_ASSUME,
    },
    "C02": {
        "test": "TestC02",
        "quick": {"shards": 8, "checks": 8000},
        "thorough": {"shards": 16, "checks": 5000},
        "rule": "histories as in C01 (incl. Prune requests, 'remember these live leaves' requests and direct partial forests); after every block up to 3 prove requests (one / two / sibling pairs / all / random third / one per tree / one per row, "
                "in ascending, descending or rapid-permuted order) sent to Pollard, a full MapPollard and a partial MapPollard (restricted to the leaves it "
                "was asked to remember); each proof compared hash-for-hash with the model's canonical proof and fed to Verify, Pollard.Verify and every "
                "MapPollard.Verify; Verify's root indexes compared as a set with the trees holding the targets. Non-trivial case: contains a request with "
                ">=2 targets in which a sibling hash is omitted because it is computable or a target sits above row 0. Distinct by case hash. Sizes as in C01; deterministic scale probes on 2^9..2^13 (thorough 2^15) leaves ask after every block for a stride-permuted half, a descending third and all live leaves.",
        "assumptions": COMMON_ASSUME,
    },
    "C16": {
        "test": "TestC16",
        "quick": {"shards": 8, "checks": 100000},
        "thorough": {"shards": 16, "checks": 1000000},
        "rule": "two parts. Enumerated (complete, dealt over shards): heights 0..7 (thorough 0..9): every position x {DetectRow, Parent, Left/RightChild, "
                "ParentMany/ChildMany for every rise/drop incl. out of range}; every leaf count x {TreeRows, RootPositions}; every node of every forest x "
                "DetectOffset (validated by walking the returned bits from the geometric root); ProofPositions for every non-empty leaf subset of n<=16 "
                "(thorough 20) leaves in layouts Rows(n), Rows(n)+1 and 63. Also enumerated: 27 (thorough 54) LARGE ProofPositions instances - forests of 20000..65536 (150000) leaves with tens of thousands of mixed-row non-nested targets built from a fixed pattern - in the same three layouts. Generated (rapid): heights 0..63 with boundary offsets/leaf counts and random "
                "64-bit values, mixed-row non-nested target sets. Non-trivial: (height>=1 and row>=1) or >=2 targets or n>=2; generated points that fall "
                "inside the enumerated sub-space are not counted again. In the generated part the slices returned by RootPositions and (up to 64 targets) ProofPositions are, once judged, overwritten by the harness and the same question is asked again.",
        "assumptions": ["independent geometry of harness/model (row r of an R-row layout starts at 2^(R+1)-2^(R+1-r))", "translatePos is unexported: covered through MapPollard coordinates in C01/C02/C09/C10"],
    },
}

TRUST = ("Trusted base: the reference model (harness/model, cross-checked against an operational twin and hand vectors), Go's crypto/sha256 and "
         "crypto/sha512, pgregory.net/rapid v1.3.0, absence of hash collisions among generated leaves. Exploration only: 'held on everything "
         "generated', never absence.")

MANIFEST_TEXT = {
    "C01": {
        "level_text": "Exploration: thousands of generated block histories (all named deletion/addition shapes, measured) applied to Stump, Pollard and "
                      "MapPollard(full/partial, TotalRows 0..63) and compared after every block with an implementation-independent reference model, plus a "
                      "metamorphic re-batching relation. Right level because the property quantifies over unbounded histories; no finite enumeration exists.",
        "design_ref": "DESIGN.md section 6 C01",
        "level_note": TRUST,
        "technique": "property-based testing (rapid), model-based oracle + metamorphic re-batching",
    },
    "C02": {
        "level_text": "Exploration: canonical-proof equality against the reference model for generated request shapes on generated states, for all three "
                      "provers, and acceptance by all verifiers. Unbounded domain (states x subsets x orders): sampled, with the shape distribution measured.",
        "design_ref": "DESIGN.md section 6 C02",
        "level_note": TRUST,
        "technique": "property-based testing (rapid), model-based oracle (canonical proof), differential between provers",
    },
    "C16": {
        "level_text": "Exploration with a completely enumerated finite sub-space (all heights <=7/9, all leaf subsets of n<=16/20) plus rapid sampling of "
                      "boundary and random values for heights up to 63. The full domain (2^64 positions x 64 heights) cannot be enumerated.",
        "design_ref": "DESIGN.md section 6 C16",
        "level_note": "Trusted base: the independent geometry in harness/model (about 30 lines of integer arithmetic, checked by hand vectors), rapid. "
                      "Exploration: held on everything enumerated/generated.",
        "technique": "exhaustive small-scope enumeration + property-based testing (rapid) against an independent geometric oracle",
    },
}

_PENDING = "check not built yet in this session (planned, see DESIGN.md section 6); listed here so that the manifest never claims an unbuilt check"
NOT_APPLICABLE = [{"property_id": "C%02d" % i, "reason": _PENDING} for i in range(1, 18) if "C%02d" % i not in CHECKS]

CHECKS["C04"] = {
    "test": "TestC04",
    "quick": {"shards": 8, "checks": 40000},
    "thorough": {"shards": 16, "checks": 200000, "fuzz": {"target": "FuzzC04", "seconds": 240}},
    "rule": "state modes: real / embedded / synthetic (below) and DEEP: one tree of 2^k leaves, k in {1,2,5,8,16,31,32,33,40,47,62,63}, of which only leaf 0, its path and the path's siblings are known (true claims exist for a node on every row), judged through Verify, Stump.Update (atomicity incl. at 2^63 leaves) and a map forest started from the bare root (Verify, VerifyPartialProof, remember on/off). Otherwise a small real forest (0..6 generated blocks) gives the state for Pollard.Verify, MapPollard.Verify and VerifyPartialProof (generated TotalRows, "
            "full/partial, remember on/off); Verify and Stump.Update get that stump, or the same forest embedded at the low end of a stump with up to 2^62+.. "
            "leaves (fresh roots for the high trees), or a synthetic stump (NumLeaves from boundary constants / random 64-bit values <= 2^63, roots from "
            "{true node hashes, leaves, fresh, zero}). The claim is an honest proof put through 1-3 structured mutations (duplicate / retarget / swap / re-hash / "
            "proof drop-insert-swap-replace-rotate / nested / extra target / length mismatch) or a free tuple; targets include 2^k, 2^k-1, 2^63, 2^64-1 and "
            "positions just past the forest. Oracle: no panic; loop-iteration budget 10^4+10^3*len(input) per call via the verifTick hooks; Stump.Update "
            "leaves NumLeaves and roots unchanged when it returns an error. Non-trivial: the claim passes the length check (so it is rejected for another "
            "reason, or accepted). Distinct by case hash.",
    "assumptions": COMMON_ASSUME + ["'polynomial time' is decided as: every instrumented loop stays within 10^4+10^3*len(input) iterations per call, with a 120 s per-case watchdog as backstop",
                                    "well-formed stump: len(Roots)=popcount(NumLeaves), NumLeaves<=2^63 (forests have at most 63 rows)"],
}
MANIFEST_TEXT["C04"] = {
    "level_text": "Exploration: generated hostile claims against generated states, with a deterministic in-process termination oracle (loop-tick budget through "
                  "build-tag hooks) so that a non-terminating input is a shrinkable failure rather than a timeout. The input space is unbounded; sampled with "
                  "boundary constants and structured mutation, thorough tier adds coverage-guided native fuzzing.",
    "design_ref": "DESIGN.md section 6 C04",
    "level_note": TRUST + " Termination is judged by an iteration budget on the instrumented loops and a per-case watchdog, not by asymptotic analysis.",
    "technique": "property-based testing (rapid) with structured mutation + boundary values; loop-budget hooks; native go fuzzing in the thorough tier",
}
NOT_APPLICABLE[:] = [e for e in NOT_APPLICABLE if e["property_id"] not in CHECKS]

CHECKS["C03"] = {
    "test": "TestC03",
    "quick": {"shards": 8, "checks": 6000},
    "thorough": {"shards": 16, "checks": 60000, "fuzz": {"target": "FuzzC03", "seconds": 240}},
    "rule": "two parts (plus, in 1 of 8 generated cases, the DEEP state of C04: one tree of 2^k leaves up to k=63 with leaf 0's path known, claims judged through Verify and a map forest started from the root). Enumerated (complete per state, states dealt over shards): for every forest with N<=4 leaves and ANY dead set, and selected N in 5..6 "
            "(thorough ..8): every tuple of k<=2 (thorough 3 for N<=4) targets in [0,maxPos], hashes and 0..3 proof hashes (fewer where the per-state cap "
            "of 1.5M/12M tuples would be passed) from {every true node hash, one fresh value}, given to Verify and Pollard.Verify and, with the positions shifted, to Verify on the same state embedded behind 2^33 (odd states: 2^62+2^40) opaque leaves. Generated (rapid): states of "
            "up to 48 (thorough 300) leaves; an honest proof put through 1-3 structured mutations or a free tuple, given to Verify, Pollard.Verify, "
            "MapPollard.Verify, VerifyPartialProof (all proof hashes, and only the missing ones) and Verify on the forest embedded under a stump of up to "
            "2^62 leaves, and last to the REMEMBERING entry points (Pollard.Verify, MapPollard.Verify and VerifyPartialProof with remember=true); in a third of the cases the forests first take a detour (one more block, an honest Verify, Undo back) so that the claim meets long-lived forests. Oracle: accepted => every (non-zero) hash equals the model's node hash at its claimed position. Non-trivial: not an honest "
            "(distinct live leaves, canonical proof) tuple, as many hashes as targets, all targets <= maxPos.",
    "assumptions": COMMON_ASSUME + ["claims with an all-zero target hash are outside the property's hypothesis ('a list of non-zero hashes') and are skipped, counted",
                                    "a map forest's verifier is also allowed to read a target as a position of its own TotalRows layout",
                                    "panics / non-termination met here are C04's business and only counted"],
}
MANIFEST_TEXT["C03"] = {
    "level_text": "Exploration with a completely enumerated small-alphabet sub-space (every tuple over every tiny forest within stated bounds: about 10^7 claims "
                  "quick) plus structured mutation of honest proofs on larger forests. One-directional oracle (accepted => true) so a strict verifier can never "
                  "trip it. Soundness over all inputs cannot be enumerated.",
    "design_ref": "DESIGN.md section 6 C03",
    "level_note": TRUST,
    "technique": "exhaustive small-alphabet enumeration + property-based structured mutation (rapid), model-based soundness oracle",
}
NOT_APPLICABLE[:] = [e for e in NOT_APPLICABLE if e["property_id"] not in CHECKS]

CHECKS["C05"] = {
    "test": "TestC05",
    "quick": {"shards": 8, "checks": 6000},
    "thorough": {"shards": 16, "checks": 8000},
    "rule": "a generated history (with Prune requests to the partial forest; partial forest 'direct' in half of the cases: Modify without Verify(remember) when the deleted leaves are already cached) builds the state in Stump, Pollard, a full and a partial MapPollard (generated TotalRows) and a light client's cached proof; "
            "then one block deletes a generated live target set (shapes as in C02) whose proof is encoded as: canonical / targets+hashes permuted in parallel / "
            "1-3 junk hashes appended / assembled by AddProof from two (possibly overlapping) honest proofs / cut by GetProofSubset from a larger honest proof / "
            "cut from the cached proof maintained by Proof.Update; followed by 0..k additions and optionally one honest follow-up block - or, in a quarter of the cases, the accepted block is undone on every forest (a full map forest from a targets-only record) and another honest block drawn on the state before it is applied instead. Precondition checked, "
            "not assumed: Verify accepts and the targets are distinct positions of live leaves with their hashes (failures counted per encoding). In half of the cases the very same slices (no copies) are handed to all four implementations, in a drawn order. Oracle: "
            "Stump.Update, Pollard.Modify, MapPollard Verify(remember)+Modify all succeed and end with the model's roots and leaf count. Non-trivial: "
            "encoding other than canonical and >=2 targets.",
    "assumptions": COMMON_ASSUME,
}
MANIFEST_TEXT["C05"] = {
    "level_text": "Exploration: generated states x target sets x proof encodings, differential across the three implementations and against the reference model. "
                  "Unbounded domain, sampled; the encoding distribution and precondition failures are measured.",
    "design_ref": "DESIGN.md section 6 C05",
    "level_note": TRUST,
    "technique": "property-based testing (rapid): metamorphic proof encodings + differential/model oracle",
}
NOT_APPLICABLE[:] = [e for e in NOT_APPLICABLE if e["property_id"] not in CHECKS]

CHECKS["C06"] = {
    "test": "TestC06",
    "quick": {"shards": 8, "checks": 3000},
    "thorough": {"shards": 16, "checks": 4000},
    "rule": "rapid-generated sequences of block / undo (depth 1 or a random depth up to the whole history) / redo-the-undone-block steps, new blocks after an "
            "undo use leaves with different hashes (branch salt); run on Pollard, a full MapPollard and a partial MapPollard (generated TotalRows; partial "
            "forests Verify(remember) a block's deletions first). Undo gets (numAdds, the block's proof, its deleted hashes, the previous roots) from the instance's recycled argument buffers; every other undo hands a FULL map forest a record carrying the targets only (it rebuilds the proof hashes itself). One step in eight (while a block can still be undone) writes every forest out and replaces it by what its own bytes restore to, so that undos and redos also run on restored objects. In a quarter of the cases a full or partial map forest JOINS LATE from the bare roots before a drawn step (NewMapPollardFromRoots), learns what each later block spends through Verify(remember), applies the blocks and follows every undo - including undos of blocks applied before it existed - and must agree on the roots and prove what it verified / was told to remember with the canonical proof. "
            " Oracles: (1) after every step each instance equals the reference model (roots, count, every live leaf's position, not-found for every "
            "deleted or undone leaf, GetHash of every existing node, canonical proofs of 6 probe subsets, tracked-leaf count); (2) after each undo the "
            "instance equals the snapshot taken right before the undone block (positions of every hash ever added, GetHash at every position <= maxPos, "
            "byte-identical proofs); (3) at the end it equals a fresh replica that only saw the surviving blocks. Non-trivial: contains an undo of a block "
            "that both deleted and added and emptied a tree / overwrote an empty root / changed TreeRows. Sizes as in C01 (without the 12000-leaf cases); deterministic scale probes: the C01 scale history on 2^9 and 2^13 leaves (thorough up to 2^14) undone to depth 3, another branch applied, everything undone to the empty forest.",
    "assumptions": COMMON_ASSUME + ["for a partial forest only what the property forces is compared: remembered leaves' positions and proofs, true hashes, required positions stored; leaves it was asked to remember later (Verify with remember is not undone by Undo) may stay tracked"],
}
MANIFEST_TEXT["C06"] = {
    "level_text": "Exploration: stateful (model-based) generation of block/undo/redo sequences with three oracles (reference model, pre-block snapshot, fresh "
                  "replica). Histories are unbounded; sampled with the block shapes and undo depths measured.",
    "design_ref": "DESIGN.md section 6 C06",
    "level_note": TRUST,
    "technique": "stateful property-based testing (rapid): model-based + snapshot round-trip + replica differential",
}
NOT_APPLICABLE[:] = [e for e in NOT_APPLICABLE if e["property_id"] not in CHECKS]

CHECKS["C07"] = {
    "test": "TestC07",
    "quick": {"shards": 8, "checks": 8000},
    "thorough": {"shards": 16, "checks": 6000},
    "rule": "block histories as in C01 driven through Stump.Update only; per block the remembered add indexes are drawn from the classes none / all / last / first / "
            "random / last-plus-random (ascending []uint32, as callers pass it); the light client starts with an empty proof and calls Proof.Update with the block's "
            "targets, added hashes, remember indexes and the returned UpdateData. After every block: held leaves == (previous minus deleted) plus remembered adds "
            "(both directions), each paired with the model's position, proof hashes == model canonical proof, Verify accepts, and the proof equals Pollard.Prove "
            "for the same leaves. The block data is laid out differently from block to block (exact copies / nil for empty lists / deletions and additions as halves of one array) and Proof.Update gets the very slices Stump.Update saw; a SECOND wallet remembering exactly the other additions is updated right after the first from the same slices and the same UpdateData value (every other block one rebuilt from its exported fields) and judged the same way. Non-trivial: contains a block with a non-empty cache before and after in which a cached leaf changes position or a leaf is "
            "remembered. Counted: remembered last leaf, remembered leaf that is a lone root, remembering in a block that overwrites an empty root. In 2 of 3 cases a second stump / light client follows the SAME forest embedded behind 2^k (+2^j) opaque leaves, k up to 62 (layouts of up to 63 rows): positions are shifted by the independent geometry and everything is checked again there. Deterministic scale probes: the C01 scale history with a sparse remembered set on 2^9 and 2^12 leaves (thorough up to 2^14), also embedded behind 2^40 opaque leaves.",
    "assumptions": COMMON_ASSUME,
}
MANIFEST_TEXT["C07"] = {
    "level_text": "Exploration: model-based check of the cached proof after every block of generated histories with forced remember classes. Unbounded histories, sampled.",
    "design_ref": "DESIGN.md section 6 C07",
    "level_note": TRUST,
    "technique": "stateful property-based testing (rapid), model-based oracle (exact leaf set, positions, canonical proof) + differential vs full prover",
}
CHECKS["C11"] = {
    "test": "TestC11",
    "quick": {"shards": 8, "checks": 12000},
    "thorough": {"shards": 16, "checks": 8000},
    "rule": "block histories as in C07 through Stump.Update; after every successful update the returned UpdateData is compared field by field with values derived "
            "from the reference model only: PrevNumLeaves; ToDestroy (empty trees popped by the binary addition, post-block layout, destruction order); "
            "NewDelPos/NewDelHash (every pre-block node on a target->root path, ascending, with the compressed hash of what survives under it, zero if nothing); "
            "NewAddPos/NewAddHash (every added leaf and both children of every post-block inner node holding a new leaf, ascending, no duplicates). "
            "Per case the block data is handed over as three exact-size copies, or with every empty list a nil slice, or with deletions and additions as the two halves buf[:d], buf[d:] of one array and proof hashes with spare capacity. Non-trivial: contains a block with >=1 deletion and >=2 additions. In 2 of 3 cases a second stump / light client follows the SAME forest embedded behind 2^k (+2^j) opaque leaves, k up to 62 (layouts of up to 63 rows): positions are shifted by the independent geometry and everything is checked again there. Deterministic scale probes: the C01 scale history on 2^9 and 2^12 leaves (thorough up to 2^15), also embedded behind 2^45 opaque leaves.",
    "assumptions": COMMON_ASSUME,
}
MANIFEST_TEXT["C11"] = {
    "level_text": "Exploration: exact (both-direction) comparison of every UpdateData field with a model-derived expectation over generated histories.",
    "design_ref": "DESIGN.md section 6 C11",
    "level_note": TRUST,
    "technique": "property-based testing (rapid), model-based oracle independent of Stump.add / calculateHashes",
}
NOT_APPLICABLE[:] = [e for e in NOT_APPLICABLE if e["property_id"] not in CHECKS]

CHECKS["C08"] = {
    "test": "TestC08",
    "quick": {"shards": 8, "checks": 8000},
    "thorough": {"shards": 16, "checks": 12000},
    "rule": "rapid-generated sequences of block (C07's remember classes) / undo (depth 1 or random depth, newest first) / redo steps; new blocks after an undo use "
            "different leaf hashes. The light client calls Proof.Update per block and Proof.Undo with (numAdds, leaf count after the block, the block's targets, "
            "deleted hashes, its own hashes, UpdateData.ToDestroy, the block proof). After every single undo, against the model of the pre-block state: no held "
            "leaf was added by the undone block, none is invented (only previously held leaves or leaves the block deleted), no leaf live before and after is "
            "lost, every held leaf is paired with the model's position, the proof hashes are the model's canonical ones and Verify accepts against the "
            "previous stump; the same exact check runs after every later Proof.Update (redo / other branch). Non-trivial: an undo with a non-empty cache "
            "before and after of a block that both deleted and added. In 2 of 3 cases a second stump / light client follows the SAME forest embedded behind 2^k (+2^j) opaque leaves, k up to 62 (layouts of up to 63 rows): positions are shifted by the independent geometry and everything is checked again there. Deterministic scale probes: that history on 2^9 and 2^12 leaves (thorough up to 2^14) undone to depth 3, another branch, undone to the empty accumulator (also embedded behind 2^33 opaque leaves).",
    "assumptions": COMMON_ASSUME + ["leaves the undone block deleted may or may not be restored (documented as not restored): both accepted"],
}
MANIFEST_TEXT["C08"] = {
    "level_text": "Exploration: stateful generation of update/undo/redo sequences for the cached proof with a model-based exact oracle after every step.",
    "design_ref": "DESIGN.md section 6 C08",
    "level_note": TRUST,
    "technique": "stateful property-based testing (rapid), model-based oracle (leaf-set inclusion rules, positions, canonical proof)",
}
NOT_APPLICABLE[:] = [e for e in NOT_APPLICABLE if e["property_id"] not in CHECKS]

CHECKS["C09"] = {
    "test": "TestC09",
    "quick": {"shards": 8, "checks": 6000},
    "thorough": {"shards": 16, "checks": 10000},
    "rule": "rapid-generated interleavings, on a non-full MapPollard started fresh (TotalRows from {0,1,2,3,4,5,7,63}) or from bare roots of a generated state "
            "(NewMapPollardFromRoots; for a third of those the undo records of the EARLIER blocks are available as well, so that Undo steps take the forest back behind the snapshot it was started from), of: block (Verify(remember) of the deletions, Modify with generated Remember flags), Verify(remember), Ingest and GetMissingPositions+VerifyPartialProof(remember) of "
            "arbitrary live sets with honest proofs (1 call in 12 with EMPTY arguments, 1 in 12 a proof with one wrong hash given to Verify(remember) - refused or not, nothing false may be stored), Prune of subsets of the cache, Undo, restart (one step in ten: the forest is written out and replaced by what its own bytes restore to), and Modify calls the forest must REFUSE (remembered leaves followed by a live leaf it does not remember; afterwards the remembered ones are still remembered and provable). The harness tracks the expected remembered set. After EVERY "
            "operation, with the model laid out in TotalRows coordinates: every stored (position,hash) is a true node hash (roots may be zero); the cache "
            "holds exactly the remembered leaves at their true positions; required (roots, remembered leaves, canonical proof positions) is a subset of "
            "stored, which is a subset of allowed (required plus path positions and their siblings); Prove of 6 probe sub-lists equals the canonical proof. Non-trivial: "
            "a prune, ingest or undo after a block with deletions, with a non-empty cache at the end. Deterministic scale probes: a partial forest through the scale history on 2^9 and 2^11 leaves (thorough up to 2^13): Verify(remember) of 300 leaves, blocks emptying tall subtrees, one Prune call for most of the cache, two undos.",
    "assumptions": COMMON_ASSUME + ["'positions on their proof paths' is read as: positions on the remembered leaves' paths to their roots and the siblings of those positions"],
}
MANIFEST_TEXT["C09"] = {
    "level_text": "Exploration: stateful generation over the five operations with a sandwich invariant (required <= stored <= allowed, all hashes true) evaluated after every step.",
    "design_ref": "DESIGN.md section 6 C09",
    "level_note": TRUST,
    "technique": "stateful property-based testing (rapid), model-based invariant after every operation",
}
NOT_APPLICABLE[:] = [e for e in NOT_APPLICABLE if e["property_id"] not in CHECKS]

CHECKS["C10"] = {
    "test": "TestC10",
    "quick": {"shards": 8, "checks": 3000},
    "thorough": {"shards": 16, "checks": 3000},
    "rule": "rapid-generated sequences of block (in a quarter of them 1-2 added leaves re-create a spent leaf: they carry the hash of a leaf deleted in the same or an earlier block that is not live) / a block every map forest must REFUSE (live leaves followed by a hash that is no leaf) / undo / Verify(remember) or GetMissingPositions+VerifyPartialProof(remember) of arbitrary live sets / serialize-and-restore steps on Pollard, a full MapPollard and a "
            "partial MapPollard (generated TotalRows); after EVERY step every instance answers: GetLeafPosition and GetLeafHashPositions for every live "
            "tracked leaf, every deleted leaf, every leaf of an undone branch, fresh values, every inner node hash, every root hash and the zero hash; "
            "GetHash for every position in [0, 2^(rows+1)+8] plus {2^32, 2^32+1, 2^62, 2^63, 2^63+5, 2^64-2, 2^64-1}; tracked-leaf counts. Expected answers "
            "come from the reference model (a partial forest must answer truthfully where it must store, may answer zero in the optional band, must answer "
            "zero elsewhere). Non-trivial: a state with >=1 deletion probed with >=1 dead leaf, >=1 inner-node hash and >=1 non-existent position. Deterministic scale probes: the scale history with restore and two undos on 2^9 and 2^11 leaves (thorough up to 2^15 = tens of thousands of tracked leaves), every look-up probed after every step.",
    "assumptions": COMMON_ASSUME + ["for a position beyond the last external position a map forest may answer with the node at that position of its own TotalRows layout (the repository's tests pass such coordinates) or with zero",
                                    "a live leaf that a partial forest was never asked to remember on the surviving branch may or may not be known: not asserted"],
}
MANIFEST_TEXT["C10"] = {
    "level_text": "Exploration: complete probe sets (all known hashes, all positions of the layout plus margin and far values) on generated reachable states, "
                  "including after undo, Verify(remember) and restore.",
    "design_ref": "DESIGN.md section 6 C10",
    "level_note": TRUST,
    "technique": "stateful property-based testing (rapid), model-based oracle over complete probe sets",
}
NOT_APPLICABLE[:] = [e for e in NOT_APPLICABLE if e["property_id"] not in CHECKS]

CHECKS["C13"] = {
    "test": "TestC13",
    "level": "fault_enumeration",
    "quick": {"shards": 8, "checks": 1000},
    "thorough": {"shards": 16, "checks": 2500},
    "rule": "a rapid-generated step sequence (block / undo / Verify(remember); for a partial forest also Prune, Ingest and GetMissingPositions+VerifyPartialProof(remember)) brings a Pollard, a full or a partial "
            "MapPollard (generated TotalRows) to a reachable state that is first checked against the reference model; after a drawn subset of the earlier steps (in half of the cases after the last but one) the same object is also written, restored and compared. Then, per state, enumerated: (a) round trip through "
            "eight reader set-ups (whole, one byte, halves, data-with-EOF, rapid-drawn chunk sizes, the same with EOF on the last chunk, and whole / chunked with 9000 foreign bytes FOLLOWING the stream in the same reader): no error, reported "
            "and consumed bytes = stream length = Pollard.SerializeSize(), restored instance equals the model (complete observation set; C09 sandwich for a "
            "partial forest) and the original (GetHash everywhere, every leaf position, stored maps incl. remember flags); (b) EVERY strict prefix of the "
            "stream when it has at most 2500 (thorough 6000) bytes, otherwise the first and last 700 offsets plus +-40 around 8-24 rapid-drawn offsets: restore "
            "must return an error or a state identical to the original, never panic, and report no more bytes than it consumed (every 7th prefix also through "
            "the data-with-EOF and chunked readers); (c) a sink failing at each of the same offsets, refusing the crossing write completely or accepting part "
            "of it: non-nil error, reported count <= accepted bytes (== for the refusing sink), no panic, original unchanged, and one more write to a healthy sink afterwards gives a stream of the first write's length that restores to the same state; (d) the original and all eight "
            "restored copies are driven through 4-7 further generated steps (>=3 blocks and an undo) and compared with the model and with each other after "
            "every step. Non-trivial: state with >=1 deletion, an empty root or a leaf above row 0, stream >= 200 bytes. Deterministic probe per run: a partial forest started from the bare roots of a small forest behind 2^31 .. 2^62+2^61 opaque leaves remembers two leaves, is written, restored (one-byte reader, every strict prefix), and both copies take two more blocks.",
    "assumptions": COMMON_ASSUME + ["on an error path the reported byte count is only required to lie between 0 and the bytes actually consumed / accepted (a partially delivered read or write may or may not be counted)",
                                    "MapPollard streams follow Go map iteration order: streams are never compared byte for byte, only after parsing"],
}
MANIFEST_TEXT["C13"] = {
    "level_text": "Fault enumeration per generated state: all reader chunkings of a fixed family, every truncation point (all prefixes for streams up to a size bound, "
                  "both ends plus sampled windows beyond it) and every sink failure offset, each judged by a model-based and a differential (original vs restored) oracle. "
                  "States themselves are sampled (unbounded).",
    "design_ref": "DESIGN.md section 6 C13",
    "level_note": TRUST,
    "technique": "property-based state generation (rapid) + exhaustive fault injection (reader chunkings, truncation points, failing sinks); round-trip, model-based and differential oracles",
}
NOT_APPLICABLE[:] = [e for e in NOT_APPLICABLE if e["property_id"] not in CHECKS]

CHECKS["C14"] = {
    "test": "TestC14",
    "quick": {"shards": 8, "checks": 20000},
    "thorough": {"shards": 16, "checks": 20000},
    "rule": "a rapid-generated step sequence (block / Verify(remember) / Prune / Undo) brings the reference model and a partial MapPollard (generated TotalRows) to a "
            "state; target set A is drawn as in C02 and B with a forced relation to A (free / overlapping / sibling leaves / cousins / other trees / superset / same / "
            "disjoint), both with targets and hashes in a drawn parallel order. Checked against the model: AddProof(A,B) returns the union (each target once, hashes "
            "parallel) with the canonical proof of the union, accepted by Verify; GetProofSubset(A, wants) for a drawn sub-list of A in a drawn order returns exactly "
            "that order, the leaves' hashes and the canonical proof of the subset, and an error iff a wanted position is not a target of A (a foreign live leaf is "
            "inserted in 1 of 6 cases); GetMissingPositions(N, A, B) equals need(B\\A) minus (A's proof positions, targets and computable positions), ascending, and the "
            "union proof assembled from A's hashes plus the true hashes at exactly those positions verifies; MapPollard.GetMissingPositions(req) - for a first request and, in 3 of 4 cases, a second one of (mostly) the same length handed over in the same recycled argument buffers - equals the canonical "
            "proof positions absent from the forest's exported node map (and never a position the forest must store), VerifyPartialProof with exactly those hashes "
            "succeeds (remember off and on, C09 invariant re-checked), fails when the last one is withheld, and a wrong-hash call with remember=true in front of it is refused without changing what the forest misses. Non-trivial: A and B overlap or some target's sibling "
            "is also a target, and an input is not position-sorted. Deterministic scale probes: states of 1022 and 3000 (thorough 9000) leaves, 9+ trees, 20 held row-0 targets combined with / completed by 1300 newer ones.",
    "assumptions": COMMON_ASSUME + ["AddProof's result order is not fixed by the statement: targets are compared as a duplicate-free set with parallel hashes",
                                    "'stored' for MapPollard.GetMissingPositions is read from the exported Nodes map and bounded by the model (required positions must never be reported)"],
}
MANIFEST_TEXT["C14"] = {
    "level_text": "Exploration: generated states x related target-set pairs x input orders, every result compared with the reference model's canonical proof / position sets and fed back to the verifiers.",
    "design_ref": "DESIGN.md section 6 C14",
    "level_note": TRUST,
    "technique": "property-based testing (rapid), model-based oracle (canonical proof and position algebra) + verify round-trip",
}
NOT_APPLICABLE[:] = [e for e in NOT_APPLICABLE if e["property_id"] not in CHECKS]

CHECKS["C15"] = {
    "test": "TestC15",
    "quick": {"shards": 8, "checks": 1500},
    "thorough": {"shards": 16, "checks": 8000},
    "rule": "block histories as in C01 (all deletion / addition shapes) replayed on the reference model only; every block's summary is (the model's canonical targets of the "
            "deleted leaves in request order, as a prover emits them; the addition count). A CachingScheduleTracker is fed the summaries and asked for every memory limit "
            "(one of 1..3, one uniform in 1..total additions, and always total+0..5 or 2^20) - per case either a fresh tracker per limit, or ONE tracker asked for all limits "
            "in turn, or ONE tracker asked after up to three prefixes of the history and at the end (each answer judged against the blocks recorded so far), or ONE tracker reorganised by value copy (before drawn blocks the caller copies the tracker value, records a stale tip - another valid block on the same state - and goes back to the copy); every block summary is handed over in one recycled buffer - and GenerateCachingSchedule is checked against the model's "
            "creation / deletion block of every slot: one list per block; strictly ascending; every entry is a slot added by that block and deleted by a later block; "
            "for every block the number of scheduled slots alive there is <= the limit; with a limit >= all leaves ever added every slot with a recorded deletion is "
            "scheduled. Non-trivial: some block empties a tree and adds in the same block, or a limit forced an eviction decision (fewer scheduled than spendable).",
    "assumptions": COMMON_ASSUME + ["optimality of the schedule is not part of the statement and is not asserted"],
}
MANIFEST_TEXT["C15"] = {
    "level_text": "Exploration: generated histories x memory limits, schedule validated against the model's per-slot lifetime (validity predicate, not one expected answer).",
    "design_ref": "DESIGN.md section 6 C15",
    "level_note": TRUST,
    "technique": "property-based testing (rapid), model-based validity predicate over the whole schedule",
}
NOT_APPLICABLE[:] = [e for e in NOT_APPLICABLE if e["property_id"] not in CHECKS]

CHECKS["C17"] = {
    "test": "TestC17",
    "quick": {"shards": 8, "checks": 8000},
    "thorough": {"shards": 16, "checks": 20000},
    "rule": "honest block histories (C01 shapes, deletions in drawn - mostly unsorted - request order, generated remember flags) on a Stump, a Pollard, a full and a partial "
            "MapPollard (generated TotalRows; in half of the cases 0, i.e. equal to the rows the forest needs, where a map forest translates and therefore copies nothing). "
            "Per block ONE set of argument slices is built - deleted hashes, proof targets, proof hashes, leaves, added hashes, previous roots, remember indexes, wants, a second "
            "proof - each a sub-slice of a larger backing array whose spare capacity holds sentinels, and handed without copying to: Pollard.Prove, MapPollard.Prove, Verify (stump "
            "roots guarded too), Pollard.Verify, MapPollard.Verify (full; partial with remember), MapPollard.GetMissingPositions, VerifyPartialProof, AddProof, GetProofSubset, "
            "Stump.Update, Proof.Update (UpdateData fields guarded), Pollard.Modify, MapPollard.Modify (full, partial) and, in a third of the blocks, Undo on all three forests and "
            "Proof.Undo followed by applying the same data again. After EVERY call every guarded argument (whole backing array, 0..cap) and every slice the library returned "
            "earlier in the case (proofs, update data, hash lists, roots, stump snapshots, missing positions, and the cached Proof value itself after every Proof.Update / Proof.Undo; last 60) is compared with its snapshot. Non-trivial: a block with >=2 "
            "deletions given in non-ascending target order on a state that already has a deleted leaf. Deterministic scale probes: the scale history on 2^9 and 2^11 leaves (thorough up to 2^13) with guarded slices of thousands of elements, every second block undone and re-applied.",
    "assumptions": COMMON_ASSUME + ["the spare capacity behind a passed slice is the caller's memory (callers pass sub-slices such as hashes[:1]); writes there are reported with their own message",
                                    "a wrong root or a refused honest call with all guards intact is another property's business (counted as setup-failed, not reported here)"],
}
MANIFEST_TEXT["C17"] = {
    "level_text": "Exploration: every listed call on generated honest histories with sentinel-guarded argument slices and a ledger of earlier results, compared after every call; "
                  "the same block data is verified, applied to all implementations, undone and re-applied without copying.",
    "design_ref": "DESIGN.md section 6 C17",
    "level_note": TRUST,
    "technique": "property-based testing (rapid), invariant over the call history (argument and earlier-result snapshots incl. spare capacity)",
}
NOT_APPLICABLE[:] = [e for e in NOT_APPLICABLE if e["property_id"] not in CHECKS]

CHECKS["C12"] = {
    "test": "TestC12",
    "race": True,
    "quick": {"shards": 8, "checks": 200, "timeout": 1500, "hang": 200},
    "thorough": {"shards": 16, "checks": 4000, "timeout": 7200, "hang": 300},
    "rule": "built with -race (GORACE halt_on_error). A rapid-generated writer script (block / undo / Verify(remember) / re-read of its own serialization; 1 script in 12 contains one block adding 1100-1700 leaves, after which queries name hundreds of hashes; for a partial forest also "
            "Prune, Ingest and GetMissingPositions+VerifyPartialProof(remember=true)) on a full or partial MapPollard with generated TotalRows, and a query set holding every reader method at least once (GetRoots, GetStump, Prove x2, "
            "Verify(remember=false), GetLeafPosition x2, GetLeafHashPositions, GetHash x2 (1-6 positions), GetMissingPositions, GetNumLeaves, GetTreeRows, Write (parsed), Write to a sink that fails after 40 bytes, "
            "VerifyPartialProof(remember=false)) with arguments resolved in a drawn between-steps state. Expected answers: a sequential replica run of the same script answers "
            "every query in every between-steps state. Two schedule generators: OWNED (2 of 3 cases): the verifPoint hook suspends the writer at a drawn (step, site, occurrence) "
            "inside its critical section; all queries are started during the pause, the writer is released after a 3 ms grace period; a query that RETURNS during the pause must "
            "carry the pre-step answer, every query the pre- or post-step answer, none may panic, afterwards the forest answers as the sequential run. STRESS (1 of 3): 1-6 reader "
            "goroutines loop over the queries (GOMAXPROCS drawn from 1..16) while the writer runs the script, waiting a drawn number of reader operations between steps; each "
            "result must equal the answer of a state in the window given by the step counter read before and after the call. SECOND WRITER (1 of 3 cases of either mode): owned - the NEXT step of the script is issued from another goroutine during the pause; it must not complete before the release, must succeed, and the forest must end in the state after both steps; stress - a second goroutine keeps calling Verify(remember=true) with honest proofs resolved in drawn states while the script runs (readers then ask only storage-independent questions), and afterwards the forest must still satisfy the reference model (roots, only true hashes stored, script-remembered leaves provable). Any data-race report, panic or RWMutex deadlock "
            "(goroutine dump) is a violation. Non-trivial: owned schedule whose site was reached with queries started during the pause, or stress run with more reader "
            "operations than queries.",
    "assumptions": COMMON_ASSUME + ["the oracle is differential (sequential vs concurrent run of the real code); whether the sequential answers are right is C01/C02/C09/C10's business",
                                    "interleavings inside a single map operation are only visible to the race detector; schedules are sampled at hook-site and Go-scheduler granularity",
                                    "a stall is declared only when no hook site was passed, no query and no writer step finished for 60 s (never because a case merely takes long); without goroutines parked on the RWMutex it is reported as inconclusive (exit 2), not as a violation"],
    "may_stop_early": False,
}
MANIFEST_TEXT["C12"] = {
    "level_text": "Exploration of schedules: harness-owned pause points inside every writer critical section (build-tag hooks) plus free-running stress, all under the race detector, "
                  "with a differential whole-block-state oracle. Not an exhaustive enumeration of interleavings.",
    "design_ref": "DESIGN.md section 6 C12",
    "level_note": TRUST + " Go race detector (-race) as the data-race oracle.",
    "technique": "property-based generation of writer scripts, query sets and schedules (rapid) with hook-owned pause points + race detector; differential oracle against a sequential replica",
}
NOT_APPLICABLE[:] = [e for e in NOT_APPLICABLE if e["property_id"] not in CHECKS]

# Per-property configuration of the driver: which Go test decides it, how many rapid cases
# per shard and how many shard processes per tier, the stated non-trivial rule, assumptions.

COMMON_ASSUME = [
    "reference model of DESIGN.md section 2 (cross-checked against an operational twin in harness/model)",
    "SHA-256 / SHA-512/256 from the Go standard library; no hash collisions among generated leaves (distinct in their first 12 bytes)",
    "pgregory.net/rapid v1.3.0 generators; every random choice is a rapid draw seeded from VERIF_SEED",
]

CHECKS = {
    "C01": {
        "test": "TestC01",
        "quick": {"shards": 8, "checks": 1200},
        "thorough": {"shards": 16, "checks": 3000},
        "rule": "rapid-generated block histories from the empty accumulator (deletion modes none/all/whole trees/sibling pairs/lone root/climbed/"
                "all-but-one/one/p=1/8,1/2,7/8; addition modes 0,1,2,3,to 2^k-1,to 2^k,past 2^k,random) applied in lock-step to Stump, Pollard and 2-3 "
                "MapPollard configurations (full and partial, TotalRows from {0..6,8,16,31,32,33,62,63} or uniform 0..63) and compared with the "
                "reference model after every block, plus the same survivors re-batched (one-shot / split / re-cut). Non-trivial: some block deletes and "
                "some block adds and at least one of: a whole tree emptied, an empty root overwritten by additions, TreeRows changes, a leaf at row>=2. "
                "Distinct by SHA-256 of the case JSON.",
        "assumptions": COMMON_ASSUME,
    },
}

TRUST = ("Trusted base: the reference model (harness/model, cross-checked against an operational twin and hand vectors), Go's crypto/sha256 and "
         "crypto/sha512, pgregory.net/rapid v1.3.0, absence of hash collisions among generated leaves. Exploration only: 'held on everything "
         "generated', never absence.")

MANIFEST_TEXT = {
    "C01": {
        "level_text": "Exploration: thousands of generated block histories (all named deletion/addition shapes, measured) applied to Stump, Pollard and "
                      "MapPollard(full/partial, TotalRows 0..63) and compared after every block with an implementation-independent reference model, plus a "
                      "metamorphic re-batching relation. Right level because the property quantifies over unbounded histories; no finite enumeration exists.",
        "design_ref": "DESIGN.md section 6 C01",
        "level_note": TRUST,
        "technique": "property-based testing (rapid), model-based oracle + metamorphic re-batching",
    },
}

_PENDING = "check not built yet in this session (planned, see DESIGN.md section 6); listed here so that the manifest never claims an unbuilt check"
NOT_APPLICABLE = [{"property_id": "C%02d" % i, "reason": _PENDING} for i in range(1, 18) if "C%02d" % i not in CHECKS]
